#!/usr/bin/env python3
"""Validate MANIFEST.json and every evidence file against the schemas (needs jsonschema: python3-vt)."""
import glob, json, sys
import jsonschema
ok = True
m = json.load(open('/verif/MANIFEST.json'))
jsonschema.validate(m, json.load(open('/root/.vp/MANIFEST.schema.json')))
es = json.load(open('/root/.vp/EVIDENCE.schema.json'))
for c in m['checks']:
    try:
        jsonschema.validate(json.load(open(c['evidence_file'])), es)
    except Exception as e:
        ok = False
        print('EVIDENCE INVALID', c['property_id'], str(e)[:300])
props = [json.loads(l)['id'] for l in open('/verif/properties.jsonl')]
claimed = {c['property_id'] for c in m['checks']}
na = {c['property_id'] for c in m.get('not_applicable', [])}
for p in props:
    if p not in claimed and p not in na:
        ok = False
        print('property neither claimed nor not_applicable:', p)
print('ok' if ok else 'PROBLEMS')
sys.exit(0 if ok else 1)
