#!/usr/bin/env python3
"""Sensitivity helper: copy /repo to a scratch dir, apply one textual mutation (or a patch file), check that the
existing tests of the touched package still pass, run ./check <ID> <tier> against the copy, delete the copy.

usage: mutate.py <ID>[,<ID>...] <relative file> <old> <new> [--tier quick] [--count N] [--notests]
       mutate.py <ID>[,<ID>...] --patch <file.diff> [--tier quick]
"""
import os, shutil, subprocess, sys, tempfile, time

def main():
    a = sys.argv[1:]
    ids = a[0].split(',')
    tier = 'quick'
    if '--tier' in a:
        tier = a[a.index('--tier') + 1]
    occurrence = int(a[a.index('--count') + 1]) if '--count' in a else 1
    d = tempfile.mkdtemp(prefix='vmut-', dir='/tmp')
    try:
        subprocess.check_call(['rsync', '-a', '--exclude', '.git', '/repo/', d + '/'])
        if a[1] == '--patch':
            subprocess.check_call(['git', 'apply', '--unsafe-paths', '--directory', d, os.path.abspath(a[2])], cwd='/')
            pkgs = ['./...']
        else:
            f, old, new = a[1], a[2], a[3]
            p = os.path.join(d, f)
            s = open(p).read()
            if s.count(old) < occurrence:
                print('MUTATE: pattern not found in', f)
                return 3
            idx = -1
            for _ in range(occurrence):
                idx = s.index(old, idx + 1)
            s = s[:idx] + new + s[idx + len(old):]
            open(p, 'w').write(s)
            pkgs = ['./' + os.path.dirname(f) + '/...'] if os.path.dirname(f) else ['.']
        env = dict(os.environ, GOFLAGS='-mod=mod', GOPROXY='off')
        if '--notests' not in a:
            r = subprocess.run(['go', 'test', '-vet=off', '-count=1'] + pkgs, cwd=d, env=env, stdout=subprocess.PIPE, stderr=subprocess.STDOUT, text=True)
            print('existing tests of', pkgs, ':', 'PASS' if r.returncode == 0 else 'FAIL')
            if r.returncode != 0:
                print(r.stdout[-1500:])
        rc_all = {}
        for pid in ids:
            t0 = time.time()
            r = subprocess.run(['/verif/check', pid, tier], env=dict(os.environ, VERIF_REPO=d), stdout=subprocess.PIPE, stderr=subprocess.STDOUT, text=True)
            lines = r.stdout.strip().splitlines()
            keep = [l for l in lines if l.startswith('VIOLATION') or '[rapid] failed' in l or 'INCONCLUSIVE' in l or l.startswith(pid)]
            print('%s %s -> rc=%d (%.0fs)' % (pid, tier, r.returncode, time.time() - t0))
            for l in keep[:6]:
                print('   ', l[:400])
            rc_all[pid] = r.returncode
        return 0
    finally:
        shutil.rmtree(d, ignore_errors=True)
        # remove the per-mutant modfile and binaries
        tag = ''.join(c if c.isalnum() else '_' for c in d)
        for root in ('/verif/.cache/mod', '/verif/.cache/bin', '/verif/.cache', '/verif/.cache/alt'):
            if os.path.isdir(root):
                for f in os.listdir(root):
                    if tag in f:
                        q = os.path.join(root, f)
                        shutil.rmtree(q, ignore_errors=True) if os.path.isdir(q) else os.remove(q)

sys.exit(main())
