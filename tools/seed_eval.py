#!/usr/bin/env python3
"""Confirm one seeded change and run the checks against it.

usage: seed_eval.py <property id> <dir with patch.diff, demo_test.go, notes.md> <name> [--thorough] [--also ID,ID]

1. copy /repo to a scratch dir; 2. apply patch.diff; 3. existing suite must pass; 4. demo must FAIL with the change and PASS without it;
5. run ./check <ID> quick (and thorough if asked / if quick misses it) against the copy; 6. store everything under /verif/seeded/<name>/ with meta.json.
"""
import json, os, re, shutil, subprocess, sys, tempfile, time

def sh(cmd, cwd, env=None, timeout=1800):
    p = subprocess.run(cmd, cwd=cwd, env=env, stdout=subprocess.PIPE, stderr=subprocess.STDOUT, text=True, timeout=timeout)
    return p.returncode, p.stdout

def main():
    pid, src, name = sys.argv[1], sys.argv[2], sys.argv[3]
    also = []
    if '--also' in sys.argv:
        also = sys.argv[sys.argv.index('--also') + 1].split(',')
    env = dict(os.environ, GOFLAGS='-mod=mod', GOPROXY='off')
    patch = os.path.join(src, 'patch.diff')
    demos = [f for f in os.listdir(src) if f.endswith('.go')]
    meta = {'property': pid, 'name': name, 'ran_at': time.strftime('%Y-%m-%dT%H:%M:%SZ', time.gmtime()), 'steps': {}}
    notes = open(os.path.join(src, 'notes.md')).read() if os.path.exists(os.path.join(src, 'notes.md')) else ''
    d = tempfile.mkdtemp(prefix='vseed-', dir='/tmp')
    try:
        subprocess.check_call(['rsync', '-a', '--exclude', '.git', '--exclude', 'OUT', '/repo/', d + '/'])
        # demo location
        demo_dirs = {}
        for f in demos:
            txt = open(os.path.join(src, f)).read()
            pk = re.search(r'^package\s+(\w+)', txt, re.M).group(1)
            base = pk[:-5] if pk.endswith('_test') else pk
            cand = None
            # the header comment names the directory; take the first path mentioned whose Go files declare the demo's package
            for m in re.finditer(r'((?:pkg|internal)/[A-Za-z0-9_/]+)', '\n'.join(txt.splitlines()[:40])):
                c = m.group(1).rstrip('/')
                if not os.path.isdir(os.path.join(d, c)):
                    c = os.path.dirname(c)
                if not c or not os.path.isdir(os.path.join(d, c)):
                    continue
                decl = set()
                for g in os.listdir(os.path.join(d, c)):
                    if g.endswith('.go') and not g.endswith('_test.go'):
                        mm = re.search(r'^package\s+(\w+)', open(os.path.join(d, c, g)).read(), re.M)
                        if mm:
                            decl.add(mm.group(1))
                if base in decl:
                    cand = c
                    break
            if not cand or not os.path.isdir(os.path.join(d, cand)):
                hits = [r for r, _, fs in os.walk(d) if os.path.basename(r) == base and any(x.endswith('.go') for x in fs)]
                cand = os.path.relpath(hits[0], d) if hits else '.'
            demo_dirs[f] = cand
        def run_demo():
            out_all, rc_all = '', 0
            for f, dd in demo_dirs.items():
                dst = os.path.join(d, dd, 'zz_seed_' + f if f.endswith('_test.go') else f)
                shutil.copy(os.path.join(src, f), dst)
                tags = re.findall(r'^//go:build\s+(\w+)\s*$', open(os.path.join(src, f)).read(), re.M)
                targ = ['-tags', tags[0]] if tags else []
                race = ['-race'] if ('-race' in notes and 'only fails under' in notes) or pid == 'C10' else []
                names = re.findall(r'^func (Test\w+)\(', open(os.path.join(src, f)).read(), re.M)
                sel = '^(' + '|'.join(names) + ')$' if names else '.'  # only the demonstration's own tests (others of the package may leave goroutines behind)
                rc, out = sh(['go', 'test', '-vet=off', '-count=1'] + targ + race + ['-run', sel, './' + dd], d, env, 900)
                os.remove(dst)
                out_all += out[-3000:]
                rc_all |= rc
            return rc_all, out_all
        rc, out = run_demo()
        meta['steps']['demo_without_change'] = 'pass' if rc == 0 else 'FAIL'
        if rc != 0:
            meta['steps']['demo_without_change_output'] = out[-1500:]
        rc, out = sh(['git', 'apply', '--unsafe-paths', '--directory', d, os.path.abspath(patch)], '/')
        if rc != 0:
            rc, out = sh(['patch', '-p1', '-i', os.path.abspath(patch)], d)
        meta['steps']['patch_applies'] = rc == 0
        if rc != 0:
            meta['steps']['patch_output'] = out[-800:]
            return finish(meta, src, name, notes, False)
        rc, out = sh(['go', 'build', './...'], d, env)
        meta['steps']['builds'] = rc == 0
        rc, out = sh(['go', 'test', '-vet=off', '-count=1', './...'], d, env, 1800)
        if rc != 0:
            # timing-sensitive existing tests can flake on a busy machine: re-run the failing packages alone, twice
            failed = re.findall(r'^FAIL\s+(\S+)', out, re.M)
            pk = ['./' + f.replace('github.com/pion/interceptor/', '') for f in failed if f.startswith('github.com')]
            for _ in range(2):
                if not pk:
                    break
                rc2, out2 = sh(['go', 'test', '-vet=off', '-count=1'] + pk, d, env, 1800)
                if rc2 == 0:
                    rc = 0
                    meta['steps']['existing_suite_note'] = 'packages %s failed once on the busy machine and passed when re-run alone' % pk
                    break
        meta['steps']['existing_suite_with_change'] = 'pass' if rc == 0 else 'FAIL'
        if rc != 0:
            meta['steps']['existing_suite_output'] = out[-1500:]
        rc, out = run_demo()
        meta['steps']['demo_with_change'] = 'fail (as it should)' if rc != 0 else 'PASSES (does not demonstrate)'
        confirmed = meta['steps']['builds'] and meta['steps']['existing_suite_with_change'] == 'pass' and rc != 0 and meta['steps']['demo_without_change'] == 'pass'
        meta['confirmed'] = confirmed
        # our checks
        cenv = dict(os.environ, VERIF_REPO=d)
        results = {}
        for cid in [pid] + also:
            t0 = time.time()
            rc, out = sh(['/verif/check', cid, 'quick'], '/verif', cenv, 3600)
            lines = [l for l in out.splitlines() if 'VIOLATION' in l or '[rapid] failed' in l or 'INCONCLUSIVE' in l or 'panic' in l[:20]]
            results[cid + ':quick'] = {'rc': rc, 'wall_s': round(time.time() - t0), 'lines': [l.strip()[:400] for l in lines[:4]]}
            if rc != 1 and ('--thorough' in sys.argv or cid == pid):
                t0 = time.time()
                rc2, out2 = sh(['/verif/check', cid, 'thorough'], '/verif', cenv, 7200)
                lines = [l for l in out2.splitlines() if 'VIOLATION' in l or '[rapid] failed' in l or 'INCONCLUSIVE' in l]
                results[cid + ':thorough'] = {'rc': rc2, 'wall_s': round(time.time() - t0), 'lines': [l.strip()[:400] for l in lines[:4]]}
        meta['checks'] = results
        meta['caught_by'] = [k for k, v in results.items() if v['rc'] == 1]
        return finish(meta, src, name, notes, confirmed)
    finally:
        shutil.rmtree(d, ignore_errors=True)
        tag = ''.join(c if c.isalnum() else '_' for c in d)
        for root in ('/verif/.cache/mod', '/verif/.cache/bin', '/verif/.cache', '/verif/.cache/alt'):
            if os.path.isdir(root):
                for f in os.listdir(root):
                    if tag in f:
                        q = os.path.join(root, f)
                        shutil.rmtree(q, ignore_errors=True) if os.path.isdir(q) else os.remove(q)

def finish(meta, src, name, notes, confirmed):
    out = os.path.join('/verif/seeded', name)
    os.makedirs(out, exist_ok=True)
    for f in os.listdir(src):
        if f.endswith('.go') or f in ('patch.diff', 'notes.md'):
            shutil.copy(os.path.join(src, f), os.path.join(out, f + ('.txt' if f.endswith('.go') else '')))
    meta['needs_to_manifest'] = notes[:1500]
    json.dump(meta, open(os.path.join(out, 'meta.json'), 'w'), indent=1)
    print(name, 'confirmed' if confirmed else 'NOT CONFIRMED', 'caught by', meta.get('caught_by'))
    print(json.dumps(meta.get('steps'), indent=0)[:600])
    return 0

sys.exit(main())
