#!/bin/sh
# re-evaluate seeded changes already kept under /verif/seeded: reeval.sh <name>[:also,ids] ...
cd /verif
for x in "$@"; do
  n=${x%%:*}; also=""
  case "$x" in *:*) also="--also ${x#*:}";; esac
  id=${n%%-*}
  d=$(mktemp -d /tmp/vre-XXXX)
  cp seeded/$n/patch.diff $d/; cp seeded/$n/notes.md $d/ 2>/dev/null
  for f in seeded/$n/*.go.txt; do [ -f "$f" ] && cp "$f" "$d/$(basename "${f%.txt}")"; done
  python3 tools/seed_eval.py $id $d $n $also > .cache/seedlogs/$n.log 2>&1
  echo "$n: $(grep -m1 'confirmed\|CONFIRMED' .cache/seedlogs/$n.log)"
  rm -rf $d
done
