#!/bin/sh
# run every check's quick (or $1) tier sequentially; print one line per property
tier=${1:-quick}
cd /verif
for id in $(python3 -c "
import json
for l in open('properties.jsonl'): print(json.loads(l)['id'])"); do
  start=$(date +%s)
  ./check $id $tier > .cache/last_$id.log 2>&1
  rc=$?
  echo "$id rc=$rc $(( $(date +%s) - start ))s $(head -1 .cache/last_$id.log | cut -c1-110)"
done
