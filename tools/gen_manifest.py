#!/usr/bin/env python3
"""Generate /verif/MANIFEST.json from checks_config.py (claimed checks) + NOT_APPLICABLE below."""
import json, os, sys
sys.path.insert(0, '/verif')
from checks_config import PROPS, NOT_APPLICABLE
all_ids = [json.loads(l)['id'] for l in open('/verif/properties.jsonl')]
checks = []
for pid in all_ids:
    if pid not in PROPS:
        continue
    c = PROPS[pid]
    entry = {
        "property_id": pid,
        "quick_cmd": "./check %s quick" % pid,
        "thorough_cmd": "./check %s thorough" % pid,
        "evidence_file": "/verif/evidence/%s.json" % pid,
        "replay_cmd_template": "./check %s --replay {path}" % pid,
        "engine": "pbt-harness",
        "level_claimed": {"category": "exploration", "text": c["level_text"], "design_ref": "DESIGN.md section 4, " + pid},
        "level_note": c["level_note"],
        "technique": c["technique"],
    }
    checks.append(entry)
na = [{"property_id": p, "reason": NOT_APPLICABLE.get(p, "check not built yet in this session (work in progress); see DESIGN.md section 4")}
      for p in all_ids if p not in PROPS]
m = {
    "version": 1,
    "setup_cmd": "./setup.sh",
    "hooks": {
        "guard": "verif",
        "enable": "no hooks: every check observes /repo through exported identifiers; the harness module path lies below github.com/pion/interceptor so internal/ packages are importable",
        "baseline_off_cmd": "cd /repo && go test -vet=off -count=1 -timeout 25m ./...",
        "source_commits": [],
        "add_only": True,
    },
    "engines": [{
        "name": "pbt-harness", "path": "/verif/harness",
        "serves_properties": [c["property_id"] for c in checks],
        "kind_free_text": "Go module of rapid (pgregory.net/rapid v1.3.0) properties, stateful model-based tests, seeded concurrent programs under -race and native go fuzz targets, driven by /verif/check",
    }],
    "checks": checks,
    "notes": "exit 0 held / 1 VIOLATION / 2 inconclusive. VERIF_SEED selects the rapid seed (0 remapped). VERIF_REPO=<dir> points the harness at another tree (used for mutants). Known findings: /verif/KNOWN_FINDINGS.json.",
    "not_applicable": na,
}
json.dump(m, open('/verif/MANIFEST.json', 'w'), indent=1)
print("claimed:", len(checks), "not claimed:", len(na))
