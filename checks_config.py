"""Per-property run plans for ./check. Each run: test regex, rapid case count ('checks'), shards, race, env."""

PROPS = {}

# properties not claimed, with the reason (kept current; empty when everything is claimed)
NOT_APPLICABLE = {}

PROPS["C20"] = {
    "pkg": "c20",
    "technique": "exhaustive enumeration of (state, input) pairs + rapid property-based testing with a validity-predicate oracle",
    "level_text": "Unwrapper: every (previous result, input) pair for all previous results below 2^17 (quick) / 2^20 (thorough) is "
                  "enumerated against a validity predicate written from the statement, plus sampled larger states and generated streams that "
                  "must be reconstructed exactly; NTP: monotonicity and both round-trips on 10^5..10^7 generated instants with boundary bias. "
                  "Exhaustive for the finite sub-domain, exploration for the rest.",
    "level_note": "trusts: Go arithmetic; states are reached through the exported API only; instants within 1 us of the 2036 era rollover "
                  "or of a 2^16-s window edge are outside the domain (float64 resolution of the conversion, covered by the statement's 1 us tolerance)",
    "assumptions": [
        "unwrapper states are reached through the exported API and copied by value",
        "instants are limited to NTP era 0 (1970-01-01 .. 2036-02-07) as the property states",
        "at distance exactly 2^15 either unwrapping direction is accepted; floor-at-zero case = result is the input itself",
    ],
    "quick": [
        {"test": "^TestUnwrapPairsExhaustive$", "shards": 8, "env": {"VERIF_C20_STATES": 1 << 17}, "timeout": 300},
        {"test": "^(TestUnwrapLargeStates)$", "checks": 300, "timeout": 300},
        {"test": "^(TestUnwrapReconstructsStream)$", "checks": 20000, "timeout": 300},
        {"test": "^(TestNTPMonotone|TestNTPRoundTrip|TestNTP32RoundTrip)$", "checks": 200000, "timeout": 300},
    ],
    "thorough": [
        {"test": "^TestUnwrapPairsExhaustive$", "shards": 16, "env": {"VERIF_C20_STATES": 1 << 20}, "timeout": 900},
        {"test": "^(TestUnwrapLargeStates)$", "checks": 3000, "shards": 4, "timeout": 600},
        {"test": "^(TestUnwrapReconstructsStream)$", "checks": 300000, "shards": 4, "timeout": 600},
        {"test": "^(TestNTPMonotone|TestNTPRoundTrip|TestNTP32RoundTrip)$", "checks": 3000000, "shards": 8, "timeout": 900},
    ],
}

PROPS["C18"] = {
    "pkg": "c18",
    "technique": "stateful model-based property testing (rapid state machine) against a pointer-identity reference model, each call under a watchdog",
    "level_text": "Generated operation histories (10^4 quick / 10^6 thorough) over the exported JitterBuffer, PriorityQueue and the jitter-buffer "
                  "interceptor are compared step by step with a reference model that tracks the identity of every pushed packet object; "
                  "exploration, with shrinking to a minimal history.",
    "level_note": "trusts: the model; effects the statement leaves undefined (head after Clear/PopAtSequence(other)/PopAtTimestamp, start threshold after "
                  "Clear(true)) are re-synchronised from the implementation instead of asserted; 'never loops' is decided as 'returns within 3 s'",
    "assumptions": [
        "single-goroutine use of the buffer (concurrency is C10's subject)",
        "after Clear(true) either the configured or the default start threshold is accepted",
    ],
    "quick": [
        {"test": "^TestRegress", "timeout": 120},
        {"test": "^TestJitterBufferModel$", "checks": 6000, "steps": 60, "timeout": 300},
        {"test": "^TestPriorityQueueModel$", "checks": 6000, "steps": 60, "timeout": 300},
        {"test": "^TestInterceptorBytes$", "checks": 400, "timeout": 300},
        {"test": "^TestClearAfterLargeFill$", "checks": 150, "timeout": 300},
    ],
    "thorough": [
        {"test": "^TestRegress", "timeout": 120},
        {"test": "^TestJitterBufferModel$", "checks": 80000, "steps": 80, "shards": 8, "timeout": 900},
        {"test": "^TestPriorityQueueModel$", "checks": 100000, "steps": 80, "shards": 4, "timeout": 900},
        {"test": "^TestInterceptorBytes$", "checks": 5000, "shards": 4, "timeout": 900},
        {"test": "^TestClearAfterLargeFill$", "checks": 4000, "shards": 4, "timeout": 900},
    ],
}

PROPS["C05"] = {
    "pkg": "c05",
    "technique": "property-based testing with a possible-state (may) reference model and an independent byte-level wire decoder as oracle",
    "level_text": "Generated record/build histories (4 000 quick / ~300 000 thorough, <= 300 steps each) on the exported twcc.Recorder are judged by a "
                  "possible-state model of what the statement allows the recorder to hold, and every emitted packet is re-decoded from its bytes by a decoder "
                  "written from the draft; an end-to-end property drives the real twcc.SenderInterceptor (real ticker and clock, several streams sharing one counter) and judges every "
                  "written feedback from its bytes: wire form, no invented arrivals, arrival times bracketed by the wall-clock instants of the Read calls, 'not received' only for numbers "
                  "whose Read had not returned when the feedback was written, completeness, counter +1 per packet. Exploration.",
    "level_note": "trusts: the may-model (forgetting is allowed exactly for arrivals that a feedback has covered and that are >= 500 ms older than a later recorded arrival, or > 2^15-1 behind the newest "
                  "number); arrival times >= 0; sequence unwrapping is taken from the library (verified exhaustively by C20)",
    "assumptions": ["arrival times are non-negative (the interceptor feeds time since start)",
                    "the 16-bit base of a feedback is located as the congruent unwrapped number in (newest-65536, newest]",
                    "end-to-end cases deliver the first packet first (the unwrapper does not go below its first number, C20) and last far less than the 500 ms history; a case stretched beyond 300 ms by a loaded machine is not judged for completeness"],
    "quick": [
        {"test": "^TestRecorderFeedback$", "checks": 4000, "timeout": 400},
        {"test": "^TestSenderInterceptorFeedback$", "checks": 100, "shards": 4, "timeout": 400},
    ],
    "thorough": [
        {"test": "^TestRecorderFeedback$", "checks": 20000, "shards": 15, "timeout": 1200},
        {"test": "^TestSenderInterceptorFeedback$", "checks": 2500, "shards": 12, "timeout": 1200},
    ],
}

PROPS["C08"] = {
    "pkg": "c08",
    "technique": "property-based testing against a per-SSRC reference model (recorder level) and model-tracking of an end-to-end run with a controlled clock",
    "level_text": "Generated arrival/report histories (5 000 quick / ~300 000 thorough) on the exported rfc8888.Recorder are compared with a reference "
                  "model of cursor, first-copy arrival times, size-limit truncation and offsets computed in integer nanoseconds; an end-to-end property reads "
                  "packets through the interceptor with a model clock and checks every written report against the model. Exploration.",
    "level_note": "trusts: the model; maximum sizes <= 32768; truncation is accepted without prescribing the budgeting formula (at least min(pending, share)-2 "
                  "entries, newest kept); offsets strictly between 8189/1024 s and 8190/1024 s may be 0x1FFD (floor) or 0x1FFE (RFC 8888 over-range rule); "
                  "unwrapping is the library's (verified by C20)",
    "assumptions": ["duplicates carry the same ECN marking as the first copy",
                    "end to end: the single packet that may be in flight between reader and report loop at a tick is tracked as two candidate histories"],
    "quick": [
        {"test": "^TestRegress", "timeout": 120},
        {"test": "^TestRecorderReports$", "checks": 6000, "timeout": 300},
        {"test": "^TestInterceptorReports$", "checks": 300, "timeout": 300},
    ],
    "thorough": [
        {"test": "^TestRegress", "timeout": 120},
        {"test": "^TestRecorderReports$", "checks": 40000, "shards": 8, "timeout": 900},
        {"test": "^TestInterceptorReports$", "checks": 1500, "shards": 8, "timeout": 900},
    ],
}

PROPS["C04"] = {
    "pkg": "c04",
    "technique": "stateful model-based property testing (rapid state machine) with quiescence after each NACK; seeded concurrent runs with self-describing packets under the race detector",
    "level_text": "Deterministic phase: generated send/NACK/unbind/re-bind histories through the public interceptor are compared with a window model "
                  "(one retransmission per requested number that is in the window, equal to the original or its RFC 4588 form). Concurrent phase: a writer, a NACK "
                  "reader and a lifecycle goroutine run together on small buffers; every packet reaching the transport must be one self-consistent packet that "
                  "was really sent (thorough: under -race). Exploration.",
    "level_note": "trusts: the window model; when two different packets were sent under one number either is accepted; the RTX sequence number is unconstrained; "
                  "DisableCopy is exercised only without RTX; quiescence = goroutine count back at the per-case baseline",
    "assumptions": ["legacy padding form (count in last payload byte) only on the RTX path, as documented",
                    "payload <= 1460 bytes (larger ones are rejected by Write and belong to C02)"],
    "quick": [
        {"test": "^TestRegress", "timeout": 120},
        {"test": "^TestResponderRetransmits$", "checks": 4000, "steps": 80, "timeout": 300},
        {"test": "^TestResponderConcurrent$", "checks": 150, "timeout": 300},
        {"test": "^TestResponderUnbindDuringAnswer$", "checks": 1500, "timeout": 300},
    ],
    "thorough": [
        {"test": "^TestRegress", "timeout": 120},
        {"test": "^TestResponderRetransmits$", "checks": 30000, "steps": 100, "shards": 8, "timeout": 900},
        {"test": "^TestResponderConcurrent$", "checks": 400, "shards": 8, "race": True, "timeout": 900},
        {"test": "^TestResponderUnbindDuringAnswer$", "checks": 20000, "shards": 4, "timeout": 900},
    ],
}

PROPS["C03"] = {
    "pkg": "c03",
    "technique": "property-based testing through the public interceptor against a set-based reference model; tick boundaries made observable by a sentinel stream (schedule-independent oracle)",
    "level_text": "Generated arrival histories over several SSRCs, window sizes 64..32768, skipLastN and per-packet limits are fed through BindRemoteStream with a real "
                  "250 us ticker; at each observation only NACKs of ticks that provably ran on the quiescent state (delimited by fresh gaps on a sentinel stream) "
                  "are compared with Missing = {after first, within window behind highest-skipLastN, not received}; the per-number limit is counted over the whole run. Exploration.",
    "level_note": "trusts: the set model; forward steps of exactly 2^15 are not generated (tie undefined); between two observations a stream advances < 30000 so that "
                  "requests can be attributed to unwrapped numbers; with a limit L only 'subset of Missing, at most L times, at least once' is asserted",
    "assumptions": ["a forward step of exactly 2^15 is not generated", "NACK writes never fail"],
    "quick": [
        {"test": "^TestRegress", "timeout": 120},
        {"test": "^TestGeneratorRequestsExactlyMissing$", "checks": 250, "shards": 6, "timeout": 400},
    ],
    "thorough": [
        {"test": "^TestRegress", "timeout": 120},
        {"test": "^TestGeneratorRequestsExactlyMissing$", "checks": 2500, "shards": 15, "timeout": 1500},
    ],
}

PROPS["C06"] = {
    "pkg": "c06",
    "technique": "property-based testing against an RFC 3550 reference model, with a gate clock that turns the interceptor's ticker into harness-controlled report instants",
    "level_text": "Generated reception histories (packets, sender reports and report ticks at generated points; 2 000 quick / ~80 000 thorough) are driven through "
                  "report.ReceiverInterceptor; the ticker goroutine is parked inside the injected now() so every report boundary falls at a known point, and each "
                  "report is compared field by field with a model of extended highest, interval loss, cumulative loss, A.8 jitter (wrap-safe), LSR and DLSR. Exploration.",
    "level_note": "trusts: the model; jitter tolerance +-2 units (float vs integer arrival arithmetic), DLSR +-1; spans between two reports stay within the "
                  "8192-packet history as the statement says; reports for a stream that has not received anything yet are not judged",
    "assumptions": ["reordering depth and span between reports < 8192 packets", "total model time < 18 h (DLSR range)"],
    "quick": [
        {"test": "^TestRegress", "timeout": 120},
        {"test": "^TestReceiverReports$", "checks": 1000, "shards": 3, "timeout": 400},
        {"test": "^TestCumulativeLostSaturates$", "checks": 2, "shards": 3, "timeout": 300},
    ],
    "thorough": [
        {"test": "^TestRegress", "timeout": 120},
        {"test": "^TestReceiverReports$", "checks": 5000, "shards": 15, "timeout": 1500},
        {"test": "^TestCumulativeLostSaturates$", "checks": 12, "shards": 8, "timeout": 900},
    ],
}

PROPS["C07"] = {
    "pkg": "c07",
    "technique": "property-based testing against a reference model with an injected clock and an injected ticker (report instants chosen by the generator)",
    "level_text": "Generated send histories on 1-3 streams with report ticks at generated points (5 000 quick / 200 000 thorough) through report.SenderInterceptor with "
                  "SenderNow/SenderTicker; every sender report is compared with a model of packet/octet counts, NTP time of the tick and the RTP time extrapolated from "
                  "the newest frame's first packet. Exploration.",
    "level_note": "trusts: the model; RTP time tolerance +-1 unit, NTP within 1 us; reports before the first packet are only checked for counts and NTP time; "
                  "writes use the stream's own SSRC",
    "assumptions": ["monotone model clock, total < 10 h"],
    "quick": [
        {"test": "^TestRegress", "timeout": 120},
        {"test": "^TestSenderReports$", "checks": 5000, "timeout": 300},
    ],
    "thorough": [
        {"test": "^TestRegress", "timeout": 120},
        {"test": "^TestSenderReports$", "checks": 15000, "shards": 14, "timeout": 900},
    ],
}

PROPS["C14"] = {
    "pkg": "c14",
    "technique": "property-based testing with an independent FlexFEC-03 decoder (round-trip oracle on wire bytes: decode mask, XOR-recover every protected packet)",
    "level_text": "Generated batches (k, n biased to the mask-word boundaries; all header shapes; differing lengths; several batches per encoder) go through "
                  "FlexEncoder03.EncodeFec and through the FEC interceptor; each repair packet is parsed from its bytes by a decoder written from the draft, and for every "
                  "protected index the packet is reconstructed from the repair packet and the other named packets and compared byte for byte with the wire form. Exploration.",
    "level_note": "trusts: the decoder written from draft-ietf-payload-flexible-fec-scheme-03; wire form of a media packet = rtp.Packet.Marshal into a fresh buffer "
                  "(padding filler octets zero); batches the 03 masks cannot describe (> 109 packets) may be rejected (no repair packets)",
    "assumptions": ["media packets of a batch have consecutive sequence numbers and one SSRC", "padding filler octets on the wire are zero"],
    "quick": [
        {"test": "^TestRegress", "timeout": 120},
        {"test": "^TestEncodeFecRecoversAnySingleLoss$", "checks": 1500, "timeout": 300},
        {"test": "^TestInterceptorFecAfterMedia$", "checks": 1000, "timeout": 300},
    ],
    "thorough": [
        {"test": "^TestRegress", "timeout": 120},
        {"test": "^TestEncodeFecRecoversAnySingleLoss$", "checks": 8000, "shards": 8, "timeout": 900},
        {"test": "^TestInterceptorFecAfterMedia$", "checks": 5000, "shards": 8, "timeout": 900},
    ],
}

PROPS["C09"] = {
    "pkg": "c09",
    "technique": "property-based testing with a symbolic ground truth encoded by an independent TWCC/RFC 8888 encoder (differential against the truth), plus closed-loop runs against the library's own feedback generators",
    "level_text": "Generated send histories and feedback built from a per-number ground truth (every chunk encoding, padded final chunks, evicted/unknown/never-sent numbers) "
                  "are fed to internal/cc.FeedbackAdapter and, as bytes, to rtpfb.Interceptor; every acknowledgement / PacketReport is matched against the send log and the truth "
                  "for that number. Closed loop: the library's twcc and rfc8888 recorders observe a generated lossy delivery and their output is decoded back. Exploration.",
    "level_note": "trusts: the symbolic encoder (round-trip tested against pion/rtcp and an independent decoder); an arrival at exactly the zero instant is not distinguishable "
                  "from 'not arrived' in the API and is not asserted; rtpfb departure is bracketed by wall-clock reads; closed loop delivers the first packet first "
                  "(unwrapper floor at zero); two behaviours pinned by existing tests are listed known findings",
    "assumptions": ["feedback is well-formed (inconsistent feedback is C02's subject)", "rtpfb: numbers are unique per stream within a case"],
    "quick": [
        {"test": "^TestRegress", "timeout": 120},
        {"test": "^TestAdapterAttributesFeedback$", "checks": 3000, "steps": 60, "timeout": 300},
        {"test": "^TestRtpfbReports$", "checks": 2000, "steps": 60, "timeout": 300},
        {"test": "^(TestClosedLoopTWCC|TestClosedLoopRFC8888)$", "checks": 1500, "timeout": 300},
    ],
    "thorough": [
        {"test": "^TestRegress", "timeout": 120},
        {"test": "^TestAdapterAttributesFeedback$", "checks": 25000, "steps": 80, "shards": 6, "timeout": 900},
        {"test": "^TestRtpfbReports$", "checks": 20000, "steps": 80, "shards": 5, "timeout": 900},
        {"test": "^(TestClosedLoopTWCC|TestClosedLoopRFC8888)$", "checks": 20000, "shards": 5, "timeout": 900},
    ],
}

PROPS["C15"] = {
    "pkg": "c15",
    "technique": "generated concurrent programs (seeded writer goroutines, optionally under the race detector) with a conservation oracle over the multiset of assigned numbers",
    "level_text": "Each case runs 1-8 writer goroutines over 1-4 streams through one HeaderExtensionInterceptor for more than 2^16 packets; the numbers seen at the next "
                  "writers must form one consecutive run modulo 2^16 (every residue floor/ceil(N/65536) times, extras contiguous), increase per writer, and every other header "
                  "field, extension and the payload must be unchanged; non-negotiated streams pass untouched. Exploration (thorough: under -race).",
    "level_note": "trusts: the Go scheduler to produce diverse interleavings (not owned by the harness); headers use no extension, the one-byte or the two-byte profile",
    "assumptions": ["extension ids 1..14; each writer goroutine owns its header objects"],
    "quick": [
        {"test": "^TestTransportWideNumbersGapFree$", "checks": 40, "timeout": 300},
    ],
    "thorough": [
        {"test": "^TestTransportWideNumbersGapFree$", "checks": 150, "shards": 4, "timeout": 900},
        {"test": "^TestTransportWideNumbersGapFree$", "checks": 25, "shards": 8, "race": True, "timeout": 1200},
    ],
}

PROPS["C19"] = {
    "pkg": "c19",
    "technique": "stateful property-based testing: a recount model is updated in lock-step with generated traffic and compared with Get(ssrc) after every step",
    "level_text": "Generated interleavings of incoming/outgoing RTP and RTCP compounds over up to 3+3 SSRCs through one stats interceptor (model clock via SetNowFunc) "
                  "are recounted by an independent model; after every step all listed figures of every bound SSRC are compared (counters exactly, RTTs within 2 us). Exploration.",
    "level_note": "trusts: the recount model; fields the statement does not list (local inbound jitter, remote outbound counts from sender reports) are not asserted; "
                  "recorders are awaited to be active before traffic starts; report timestamps written by the harness have distinct middle-32 values",
    "assumptions": ["an SSRC is bound in one direction only", "sequence unwrapping is the library's (C20)"],
    "quick": [
        {"test": "^TestRegress", "timeout": 120},
        {"test": "^TestStatsEqualRecount$", "checks": 4000, "steps": 60, "timeout": 300},
    ],
    "thorough": [
        {"test": "^TestRegress", "timeout": 120},
        {"test": "^TestStatsEqualRecount$", "checks": 15000, "steps": 100, "shards": 14, "timeout": 1200},
    ],
}

PROPS["C17"] = {
    "pkg": "c17",
    "technique": "generated concurrent send plans through the real pacers (real timers) with an order/once/intact oracle per writer and stream and a conservative token-bucket bound at every delivery instant",
    "level_text": "Each case draws pacer settings, 1-3 streams, 1-4 writer goroutines with planned packets (any header shape, payload 0..1460) and a mid-stream rate change; "
                  "what reaches the per-stream writers must be an order-preserving, duplicate-free image of what each goroutine had accepted, unaltered, complete once drained; for the "
                  "token-bucket interceptor cumulative released bits never exceed burst + rate x elapsed. Exploration.",
    "level_note": "trusts: wall-clock timestamps taken at delivery (>= the tick instant the limiter used, so the bound is conservative); a drain that does not finish within "
                  "3x the ideal time + 200 intervals is reported inconclusive, not as a violation; packets the bucket can never hold are excluded by construction (listed known finding, reproduced separately)",
    "assumptions": ["writes go to bound/added streams only", "the pacer stays open until the plan is drained"],
    "quick": [
        {"test": "^TestKnownOversizeHeadOfLine$", "timeout": 120},
        {"test": "^TestPacingInterceptor$", "checks": 40, "shards": 8, "timeout": 400},
        {"test": "^TestGCCPacers$", "checks": 40, "shards": 6, "timeout": 400},
        {"test": "^TestPacingDeepBacklog$", "checks": 6, "shards": 2, "timeout": 400},
        {"test": "^TestPacingSecondIncarnation$", "checks": 6, "shards": 2, "timeout": 400},
        {"test": "^TestPacingRateSpikes$", "checks": 5, "shards": 3, "timeout": 400},
    ],
    "thorough": [
        {"test": "^TestKnownOversizeHeadOfLine$", "timeout": 120},
        {"test": "^TestPacingInterceptor$", "checks": 250, "shards": 9, "timeout": 1500},
        {"test": "^TestGCCPacers$", "checks": 250, "shards": 6, "timeout": 1500},
        {"test": "^TestPacingDeepBacklog$", "checks": 60, "shards": 4, "timeout": 1500},
        {"test": "^TestPacingSecondIncarnation$", "checks": 60, "shards": 4, "timeout": 1500},
        {"test": "^TestPacingRateSpikes$", "checks": 60, "shards": 4, "timeout": 1500},
    ],
}

PROPS["C16"] = {
    "pkg": "c16",
    "technique": "property-based testing of invariants at quiescence (bounds, getter/callback/pacer agreement, finiteness) over generated configurations and feedback histories, real-time paced",
    "level_text": "Each case builds a SendSideBWE with generated (min <= initial <= max) and pacer, then runs rounds of real-time spaced sends and TWCC / RFC 8888 feedback with "
                  "generated arrival patterns (zero, equal, decreasing arrivals, huge gaps, 0..100 % loss, duplicated, empty); after every feedback, at quiescence (empty-feedback "
                  "sentinel + callback goroutines finished) the target, every callback value and every rate given to the pacer must lie within [min, max] and agree; a second property closes the "
                  "estimator while a rate change is being delivered to a pacer or callback that stalls for 0.3..1.6 s and then feeds feedback (closed error, no panic, no blocking); a third races Close against goroutines feeding feedback, a thousand short-lived estimators per case. Exploration.",
    "level_note": "trusts: wall-clock pacing of sends (the estimator reads time.Now); 'never blocks' is decided as 'returns within 20 s'; the change callback is installed before traffic; "
                  "a leaky-bucket pacer that does not drain within 5 s makes the case inconclusive",
    "assumptions": ["OnTargetBitrateChange is set before traffic", "feedback is well-formed"],
    "quick": [
        {"test": "^TestRegress", "timeout": 120},
        {"test": "^TestTargetBitrateBounded$", "checks": 25, "shards": 8, "timeout": 600},
        {"test": "^TestCloseDuringSlowCallout$", "checks": 4, "shards": 4, "timeout": 300},
        {"test": "^TestCloseRacesFeedback$", "checks": 6, "shards": 4, "timeout": 300},
    ],
    "thorough": [
        {"test": "^TestRegress", "timeout": 120},
        {"test": "^TestTargetBitrateBounded$", "checks": 600, "shards": 15, "timeout": 1800},
        {"test": "^TestCloseDuringSlowCallout$", "checks": 40, "shards": 8, "timeout": 900},
        {"test": "^TestCloseRacesFeedback$", "checks": 60, "shards": 8, "timeout": 900},
    ],
}

PROPS["C13"] = {
    "pkg": "c13",
    "technique": "metamorphic property-based testing: the same generated history replayed with fresh and with reused-and-scribbled caller buffers must produce identical emissions (thorough: also under the race detector)",
    "level_text": "For each of 14 subjects (NACK responder with/without RTX, FlexFEC, pacing interceptor, GCC leaky-bucket pacer, packet dumper sender/receiver with a binary and with a slow text formatter and a payload filter, stats, jitter-buffer "
                  "interceptor, TWCC sender, rtpfb) a generated packet history is run twice: once allocating per call, once reusing one header object, payload slice and read buffer that are "
                  "overwritten the moment each call returns; retransmissions, FEC, paced packets, dump bytes, reports and statistics must be identical, and the payload handed to Write unchanged. Exploration.",
    "level_note": "trusts: the sinks' deep copies taken at emission time; values that depend on the wall clock or on a random sequencer (RTX sequence numbers, departure and arrival stamps) are masked; "
                  "DisableCopy and direct JitterBuffer.Push are the documented exceptions and are not exercised",
    "assumptions": ["a pacer that does not drain within 10 s makes the case inconclusive"],
    "quick": [
        {"test": "^TestRegress", "timeout": 200},
        {"test": "^TestCallerBuffersNotRetained$", "checks": 24, "shards": 10, "timeout": 600},
    ],
    "thorough": [
        {"test": "^TestRegress", "timeout": 200},
        {"test": "^TestCallerBuffersNotRetained$", "checks": 300, "shards": 10, "timeout": 1800},
        {"test": "^TestCallerBuffersNotRetained$", "checks": 60, "shards": 6, "race": True, "timeout": 1800},
    ],
}

PROPS["C02"] = {
    "pkg": "c02",
    "technique": "structure-aware property-based testing (rapid) plus native coverage-guided fuzzing of the incoming RTP/RTCP paths, with a crash journal for panics in background goroutines",
    "level_text": "Every interceptor on its own and an all-interceptor chain receive, after a well-formed history, generated hostile input: incoming RTP and RTCP byte strings built from valid "
                  "packets whose fields are made inconsistent (TWCC run lengths vs status count, missing deltas, RFC 8888 wrapped/zero-length blocks, lying lengths, truncations, bit flips) and outgoing "
                  "packets with payload up to 65535; oracle: no panic anywhere in the process, every call returns within the watchdog, Read never reports more bytes than it was given, and well-formed "
                  "probe traffic still passes afterwards. Thorough adds native go fuzzing of both byte paths from a seeded and from an empty corpus. Exploration.",
    "level_note": "trusts: recover() for the calling goroutine and process death + journal for background goroutines; 'never loops' is decided as 'returns within 20 s'; native fuzzing cannot be pinned "
                  "to a seed, its reproducible unit is the saved crasher",
    "assumptions": ["the chain variant leaves out the pacing/leaky-bucket/jitter-buffer members (they are exercised alone) so that probe delivery stays synchronous"],
    "quick": [
        {"test": "^(TestRegress|TestKnown)", "timeout": 200},
        {"test": "^TestHostileInputs$", "checks": 700, "shards": 6, "timeout": 600},
    ],
    "thorough": [
        {"test": "^(TestRegress|TestKnown)", "timeout": 200},
        {"test": "^TestHostileInputs$", "checks": 8000, "shards": 8, "timeout": 1800},
        {"fuzz": "FuzzIncomingRTP", "fuzztime": "90s", "workers": 2, "timeout": 400},
        {"fuzz": "FuzzIncomingRTCP", "fuzztime": "90s", "workers": 2, "timeout": 400},
        {"fuzz": "FuzzIncomingRTP", "fuzztime": "90s", "workers": 2, "empty_corpus": True, "timeout": 400},
        {"fuzz": "FuzzIncomingRTCP", "fuzztime": "90s", "workers": 2, "empty_corpus": True, "timeout": 400},
    ],
}

PROPS["C01"] = {
    "pkg": "c01",
    "technique": "property-based testing of generated interceptor chains with transport spies, fault injection at generated call indices and lifecycle spies (oracle: identity of application traffic at the innermost reader/writer)",
    "level_text": "Each case builds a chain through Registry.Build from a generated sequence of the 16 non-buffering factories with lifecycle spies interleaved, binds generated streams, "
                  "and runs up to ~40 operations (RTP/RTCP writes and reads, faults injected into the innermost reader/writer). Application packets must reach the next writer exactly once, first, "
                  "unmodified except for the negotiated transport-cc extension; reads must hand up identical bytes; errors must surface; packets whose read failed must not appear in any generated "
                  "feedback; Unbind/Close must reach every member once with all Close errors preserved. Exploration.",
    "level_note": "trusts: the transport spies' deep copies; a failing read leaves the packet's bytes in the caller's buffer and reports their length together with the error (so that accounting it would be "
                  "visible); when transport-cc is negotiated the application supplies the extension itself (the estimator rejects packets without it by design); retransmission goroutines are awaited after "
                  "incoming RTCP so that injected packets cannot overlap the next application write",
    "assumptions": ["header extensions use the one-byte profile when transport-cc is negotiated", "payload 0..1460"],
    "quick": [
        {"test": "^TestChainTransparency$", "checks": 500, "steps": 40, "shards": 4, "timeout": 600},
    ],
    "thorough": [
        {"test": "^TestChainTransparency$", "checks": 5000, "steps": 60, "shards": 12, "timeout": 1800},
        {"test": "^TestChainTransparency$", "checks": 300, "steps": 40, "shards": 4, "race": True, "timeout": 1800},
    ],
}

PROPS["C10"] = {
    "pkg": "c10",
    "technique": "generated (seeded) concurrent programs executed under the Go race detector, with deadlock watchdog and conservation checks; crash journal turns a detected race into a replayable program",
    "level_text": "Each case is a seeded concurrent program for one interceptor or an all-interceptor chain: writer goroutines (distinct or shared streams), RTP readers, several RTCP read loops, an observer "
                  "calling the public getters and a lifecycle goroutine binding/unbinding other streams and optionally closing mid-traffic, with seeded yield/sleep perturbation, at GOMAXPROCS 2, 4 and 16 "
                  "under -race. Oracle: race detector silent, every goroutine finishes within the watchdog, counters lose no updates. Exploration of executed interleavings only.",
    "level_note": "trusts: the Go race detector (it only sees executed interleavings; the harness perturbs but does not own the scheduler); only concurrency the interface permits is generated "
                  "(single Close, callbacks installed before traffic); a replay reproduces a schedule-dependent failure only with some probability (each replay runs the program 20 times)",
    "assumptions": ["no concurrent double Close", "RTCP writer bound before streams"],
    "quick": [
        {"test": "^TestRegress", "race": True, "timeout": 400},
        {"test": "^TestConcurrentPrograms$", "checks": 100, "shards": 6, "race": True, "timeout": 600},
        {"test": "^TestConcurrentPrograms$", "checks": 60, "shards": 2, "race": True, "gomaxprocs": 2, "timeout": 600},
    ],
    "thorough": [
        {"test": "^TestRegress", "race": True, "timeout": 400},
        {"test": "^TestConcurrentPrograms$", "checks": 2500, "shards": 8, "race": True, "timeout": 1800},
        {"test": "^TestConcurrentPrograms$", "checks": 1200, "shards": 4, "race": True, "gomaxprocs": 2, "timeout": 1800},
        {"test": "^TestConcurrentPrograms$", "checks": 1200, "shards": 4, "race": True, "gomaxprocs": 4, "timeout": 1800},
    ],
}

PROPS["C11"] = {
    "pkg": "c11",
    "technique": "stateful property-based testing (rapid state machine over lifecycle calls, per interceptor) with a watchdog on every call and goroutine/emission observation after Unbind and Close",
    "level_text": "For a generated interceptor, a generated sequence of BindRTCPWriter/BindRTCPReader/Bind*Stream over three SSRCs per direction/traffic/Unbind*/re-bind/Close (optionally while another "
                  "goroutine keeps traffic going) is executed with 1 ms intervals; every call must return within the watchdog; after Unbind at most one more per-stream message may appear in 5 intervals; a "
                  "re-bound SSRC must start from fresh state (sender report count, receiver report loss/highest, NACKs, jitter-buffer playout); after Close nothing is written and the goroutine count returns "
                  "to the baseline. Exploration, with shrinking to a minimal call sequence.",
    "level_note": "trusts: 'never blocks indefinitely' is decided as 'does not return within 10 s'; media traffic is only generated once the RTCP writer is bound (feedback generators start their loops then); "
                  "transport-wide feedback is not counted as a per-stream message; the jitter-buffer interceptor is driven with one stream (it has one buffer); two defects are listed known findings",
    "assumptions": ["Close is called once", "Bind* is not called twice for a bound SSRC"],
    "quick": [
        {"test": "^TestRegress", "timeout": 200},
        {"test": "^TestLifecycle$", "checks": 300, "steps": 40, "shards": 12, "shrinktime": "15s", "timeout": 600},
        {"test": "^TestGeneratorFreshAfterUnbindDuringWrite$", "checks": 150, "shards": 2, "timeout": 300},
    ],
    "thorough": [
        {"test": "^TestRegress", "timeout": 200},
        {"test": "^TestLifecycle$", "checks": 1200, "steps": 50, "shards": 15, "shrinktime": "30s", "timeout": 1800},
        {"test": "^TestGeneratorFreshAfterUnbindDuringWrite$", "checks": 2000, "shards": 4, "timeout": 900},
    ],
}

PROPS["C12"] = {
    "pkg": "c12",
    "technique": "long generated packet histories run as equal phases with heap measurement at phase boundaries (metamorphic relation: equal phases must not add retained memory)",
    "level_text": "Every interceptor is run against six workload classes (in order, 5 % loss, 5 % duplicates, reordering, with periodic TWCC/RFC 8888/RR/NACK feedback, loss with feedback) as "
                  "4 x 15 000 (quick) or 6 x 300 000 (thorough) packets in each direction; after each phase (pacers drained, tickers run, two forced GCs) HeapAlloc and HeapObjects are recorded; both of the "
                  "last two phase-to-phase steps exceeding max(32 KiB, 0.5 %) and 200 objects is a violation, as is a heap that does not return to the baseline after Unbind/Close. Exploration.",
    "level_note": "trusts: runtime.MemStats after two GCs; harness allocations are phase-local (counting sinks); asymptotic behaviour is sampled at 10^5..10^6 packets, so a leak slower than the tolerance is "
                  "invisible; a pacer backlog that does not drain within 30 s makes the pair inconclusive; two growth-by-design cases are listed known findings",
    "assumptions": ["one local and one remote stream per interceptor", "RTCP writer bound"],
    "quick": [
        {"test": "^TestMemoryBounded$", "shards": 10, "env": {"VERIF_C12_PHASES": 4, "VERIF_C12_PER_PHASE": 15000}, "timeout": 900},
    ],
    "thorough": [
        {"test": "^TestMemoryBounded$", "shards": 16, "env": {"VERIF_C12_PHASES": 5, "VERIF_C12_PER_PHASE": 100000, "VERIF_C12_CHURN_EVERY": 5000, "VERIF_C12_CHURN_BATCH": 100}, "timeout": 3000},
        {"test": "^TestKnownArrivalGroupGrows$", "timeout": 600},
    ],
}
