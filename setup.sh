#!/bin/sh
# Build every test binary once (plain and, where used, -race) to warm the build cache. Offline.
cd "$(dirname "$0")" || exit 1
exec python3 - <<'PY'
import os, subprocess, sys
sys.path.insert(0, '.')
sys.argv = ['check']
import importlib.machinery, importlib.util
loader = importlib.machinery.SourceFileLoader('checkdrv', './check')
spec = importlib.util.spec_from_loader('checkdrv', loader)
drv = importlib.util.module_from_spec(spec)
loader.exec_module(drv)
seen = set()
for pid, cfg in drv.PROPS.items():
    for r in cfg['quick'] + cfg.get('thorough', []):
        if r.get('fuzz'):
            continue
        key = (r.get('pkg', cfg['pkg']), bool(r.get('race')))
        if key in seen:
            continue
        seen.add(key)
        drv.build(*key)
        print('built', key, flush=True)
PY
