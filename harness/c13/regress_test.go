package c13

import (
	"testing"

	"github.com/pion/interceptor/verifharness/kit"
	"github.com/pion/rtp"
)

func regressHistory() ([]*pkt, []uint16) {
	var hist []*pkt
	for i := 0; i < 12; i++ {
		h := rtp.Header{Version: 2, SSRC: mediaSSRC, SequenceNumber: uint16(100 + i), Timestamp: uint32(i) * 3000, CSRC: []uint32{1, 2}} //nolint:gosec
		_ = h.SetExtension(1, []byte{byte(i), 2, 3})
		hist = append(hist, &pkt{hdr: h, payload: kit.FillBytes(200+i, uint64(i+1))}) //nolint:gosec
	}

	return hist, []uint16{101, 105}
}

func regressSubject(t *testing.T, name string) {
	t.Helper()
	hist, nacks := regressHistory()
	for _, s := range subjects() {
		if s.name != name {
			continue
		}
		for attempt := 0; attempt < 20; attempt++ { // the packet dumper's race needs the logger goroutine to lose
			a, errA := s.run(hist, nacks, false)
			b, errB := s.run(hist, nacks, true)
			if errA != nil || errB != nil {
				t.Fatalf("%v %v", errA, errB)
			}
			for i := range a {
				if i >= len(b) || a[i] != b[i] {
					kit.WriteReplay("TestRegress"+name, []byte(`{"subject":"`+name+`","history":"12 packets, see regress_test.go"}`))
					t.Fatalf("%s: emission %d differs between fresh and reused caller buffers", name, i)
				}
			}
		}
	}
}

func TestRegressFlexfecCopiesBatch(t *testing.T)       { regressSubject(t, "flexfec") }
func TestRegressPacketdumpSenderCopies(t *testing.T)   { regressSubject(t, "packetdump-sender") }
func TestRegressPacketdumpReceiverCopies(t *testing.T) { regressSubject(t, "packetdump-receiver") }
