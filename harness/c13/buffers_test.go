package c13

import (
	"bytes"
	"errors"
	"fmt"
	"runtime"
	"sort"
	"strings"
	"sync"
	"testing"
	"time"

	"github.com/pion/interceptor"
	"github.com/pion/interceptor/pkg/flexfec"
	"github.com/pion/interceptor/pkg/gcc"
	"github.com/pion/interceptor/pkg/jitterbuffer"
	"github.com/pion/interceptor/pkg/nack"
	"github.com/pion/interceptor/pkg/pacing"
	"github.com/pion/interceptor/pkg/packetdump"
	"github.com/pion/interceptor/pkg/rtpfb"
	"github.com/pion/interceptor/pkg/stats"
	"github.com/pion/interceptor/pkg/twcc"
	"github.com/pion/interceptor/verifharness/kit"
	"github.com/pion/rtcp"
	"github.com/pion/rtp"
	"pgregory.net/rapid"
)

const (
	transportCCURI = "http://www.ietf.org/id/draft-holmer-rmcat-transport-wide-cc-extensions-01"
	twccID         = 5
	mediaSSRC      = 0x1111
)

type pkt struct {
	hdr     rtp.Header
	payload []byte
}

func (p *pkt) raw() []byte {
	b, err := (&rtp.Packet{Header: p.hdr, Payload: p.payload}).Marshal()
	if err != nil {
		panic(err)
	}

	return b
}

// caller is the application side. In reuse mode it owns ONE header object, ONE payload slice and ONE read buffer and
// overwrites all of them the moment each call returns.
type caller struct {
	reuse   bool
	hdr     rtp.Header
	csrc    [15]uint32
	payload [1600]byte
	readBuf [1700]byte
}

var errPayloadModified = errors.New("the interceptor wrote into the caller's payload")

func (c *caller) write(w interceptor.RTPWriter, p *pkt) error {
	if !c.reuse {
		h := p.hdr.Clone()
		pl := append([]byte(nil), p.payload...)
		_, err := w.Write(&h, pl, nil)
		if !bytes.Equal(pl, p.payload) {
			return errPayloadModified
		}

		return err
	}
	// fill the shared objects
	c.hdr = p.hdr.Clone()
	c.hdr.CSRC = c.csrc[:len(p.hdr.CSRC)]
	copy(c.hdr.CSRC, p.hdr.CSRC)
	pl := c.payload[:len(p.payload)]
	copy(pl, p.payload)
	_, err := w.Write(&c.hdr, pl, nil)
	if !bytes.Equal(pl, p.payload) {
		return errPayloadModified
	}
	// scribble over everything that was handed in
	for i := range c.payload {
		c.payload[i] = 0xEE
	}
	for i := range c.csrc {
		c.csrc[i] = 0xDEADBEEF
	}
	for _, id := range c.hdr.GetExtensionIDs() {
		ext := c.hdr.GetExtension(id)
		for i := range ext {
			ext[i] = 0xEE
		}
	}
	c.hdr.SequenceNumber, c.hdr.Timestamp, c.hdr.SSRC, c.hdr.PayloadType, c.hdr.Marker = 0xEEEE, 0xEEEEEEEE, 0xEEEEEEEE, 0x6E, !c.hdr.Marker

	return err
}

// read returns a private copy of what the reader handed back.
func (c *caller) read(r interceptor.RTPReader) ([]byte, error) {
	if !c.reuse {
		b := make([]byte, 1700)
		n, _, err := r.Read(b, nil)

		return append([]byte(nil), b[:max(n, 0)]...), err
	}
	n, _, err := r.Read(c.readBuf[:], nil)
	out := append([]byte(nil), c.readBuf[:max(n, 0)]...)
	for i := range c.readBuf {
		c.readBuf[i] = 0xEE
	}

	return out, err
}

func (c *caller) readRTCP(r interceptor.RTCPReader) (interceptor.Attributes, error) {
	b := c.readBuf[:]
	if !c.reuse {
		b = make([]byte, 1700)
	}
	_, a, err := r.Read(b, nil)
	if c.reuse {
		for i := range c.readBuf {
			c.readBuf[i] = 0xEE
		}
	}

	return a, err
}

func descRTP(s kit.SentRTP, maskSeq bool) string {
	h := s.Header
	seq := int(h.SequenceNumber)
	if maskSeq {
		seq = -1
	}
	var ext []string
	for _, id := range h.GetExtensionIDs() {
		ext = append(ext, fmt.Sprintf("%d:%x", id, h.GetExtension(id)))
	}

	return fmt.Sprintf("ssrc=%x pt=%d seq=%d ts=%d m=%v pad=%v/%d csrc=%v ext=%v payload=%x", h.SSRC, h.PayloadType, seq, h.Timestamp, h.Marker, h.Padding, h.PaddingSize, h.CSRC, ext, s.Payload)
}

type subject struct {
	name string
	run  func(hist []*pkt, nackFor []uint16, reuse bool) ([]string, error)
}

type syncBuffer struct {
	mu sync.Mutex
	b  bytes.Buffer
}

func (s *syncBuffer) Write(p []byte) (int, error) {
	s.mu.Lock()
	defer s.mu.Unlock()

	return s.b.Write(p)
}

func (s *syncBuffer) String() string {
	s.mu.Lock()
	defer s.mu.Unlock()

	return fmt.Sprintf("%x", s.b.Bytes())
}

// subjects that accept payloads above 1460 bytes (the NACK responder rejects them, the jitter buffer reads into 1700 bytes)
var oversizeOK = map[string]bool{"pacing-interceptor": true, "gcc-leaky-bucket-pacer": true, "packetdump-sender": true, "stats": true, "flexfec": true}

func subjects() []subject {
	return []subject{
		{name: "nack-responder", run: func(hist []*pkt, nackFor []uint16, reuse bool) ([]string, error) {
			return runResponder(hist, nackFor, reuse, false)
		}},
		{name: "nack-responder-rtx", run: func(hist []*pkt, nackFor []uint16, reuse bool) ([]string, error) {
			return runResponder(hist, nackFor, reuse, true)
		}},
		{name: "flexfec", run: func(hist []*pkt, _ []uint16, reuse bool) ([]string, error) {
			f, _ := flexfec.NewFecInterceptor(flexfec.NumMediaPackets(4), flexfec.NumFECPackets(2))
			ic, _ := f.NewInterceptor("")
			sink := &kit.RTPSink{}
			w := ic.BindLocalStream(&interceptor.StreamInfo{SSRC: mediaSSRC, SSRCForwardErrorCorrection: 0x2222, PayloadTypeForwardErrorCorrection: 118}, sink)
			c := &caller{reuse: reuse}
			for _, p := range hist {
				if err := c.write(w, p); err != nil {
					return nil, err
				}
			}
			_ = ic.Close()
			var out []string
			for _, s := range sink.Calls() {
				out = append(out, descRTP(s, false))
			}

			return out, nil
		}},
		{name: "pacing-interceptor", run: func(hist []*pkt, _ []uint16, reuse bool) ([]string, error) {
			f := pacing.NewInterceptor(pacing.InitialRate(500_000_000), pacing.Interval(time.Millisecond))
			ic, err := f.NewInterceptor("x")
			if err != nil {
				return nil, err
			}
			sink := &kit.RTPSink{}
			w := ic.BindLocalStream(&interceptor.StreamInfo{SSRC: mediaSSRC}, sink)
			c := &caller{reuse: reuse}
			for _, p := range hist {
				if err := c.write(w, p); err != nil {
					return nil, err
				}
			}
			ok := kit.Eventually(10*time.Second, func() bool { return sink.Len() >= len(hist) })
			_ = ic.Close()
			if !ok {
				return nil, fmt.Errorf("inconclusive: pacer did not drain")
			}
			var out []string
			for _, s := range sink.Calls() {
				out = append(out, descRTP(s, false))
			}

			return out, nil
		}},
		{name: "gcc-leaky-bucket-pacer", run: func(hist []*pkt, _ []uint16, reuse bool) ([]string, error) {
			p := gcc.NewLeakyBucketPacer(500_000_000)
			sink := &kit.RTPSink{}
			p.AddStream(mediaSSRC, sink)
			c := &caller{reuse: reuse}
			for _, pk := range hist {
				if err := c.write(p, pk); err != nil {
					return nil, err
				}
			}
			ok := kit.Eventually(10*time.Second, func() bool { return sink.Len() >= len(hist) })
			_ = p.Close()
			if !ok {
				return nil, fmt.Errorf("inconclusive: pacer did not drain")
			}
			var out []string
			for _, s := range sink.Calls() {
				out = append(out, descRTP(s, false))
			}

			return out, nil
		}},
		{name: "packetdump-sender", run: func(hist []*pkt, _ []uint16, reuse bool) ([]string, error) {
			buf := &syncBuffer{}
			f, err := packetdump.NewSenderInterceptor(packetdump.RTPWriter(buf), packetdump.RTCPWriter(&syncBuffer{}),
				packetdump.RTPBinaryFormatter(func(p *rtp.Packet, _ interceptor.Attributes) ([]byte, error) { return p.Marshal() }))
			if err != nil {
				return nil, err
			}
			ic, err := f.NewInterceptor("")
			if err != nil {
				return nil, err
			}
			w := ic.BindLocalStream(&interceptor.StreamInfo{SSRC: mediaSSRC}, &kit.RTPSink{})
			c := &caller{reuse: reuse}
			for _, p := range hist {
				if err := c.write(w, p); err != nil {
					return nil, err
				}
			}
			_ = ic.Close()

			return []string{buf.String()}, nil
		}},
		{name: "packetdump-receiver", run: func(hist []*pkt, _ []uint16, reuse bool) ([]string, error) {
			buf := &syncBuffer{}
			f, err := packetdump.NewReceiverInterceptor(packetdump.RTPWriter(buf), packetdump.RTCPWriter(&syncBuffer{}),
				packetdump.RTPBinaryFormatter(func(p *rtp.Packet, _ interceptor.Attributes) ([]byte, error) { return p.Marshal() }))
			if err != nil {
				return nil, err
			}
			ic, err := f.NewInterceptor("")
			if err != nil {
				return nil, err
			}
			src := &kit.ByteSource{}
			r := ic.BindRemoteStream(&interceptor.StreamInfo{SSRC: mediaSSRC}, src)
			c := &caller{reuse: reuse}
			for _, p := range hist {
				src.Push(p.raw())
				if _, err := c.read(r); err != nil {
					return nil, err
				}
			}
			_ = ic.Close()

			return []string{buf.String()}, nil
		}},
		{name: "packetdump-sender-text", run: func(hist []*pkt, _ []uint16, reuse bool) ([]string, error) {
			buf := &syncBuffer{}
			f, err := packetdump.NewSenderInterceptor(packetdump.RTPWriter(buf), packetdump.RTCPWriter(&syncBuffer{}),
				packetdump.RTPFormatter(slowTextFormatter), packetdump.RTPFilter(func(p *rtp.Packet) bool { return len(p.Payload) == 0 || p.Payload[0]%5 != 0 }))
			if err != nil {
				return nil, err
			}
			ic, err := f.NewInterceptor("")
			if err != nil {
				return nil, err
			}
			w := ic.BindLocalStream(&interceptor.StreamInfo{SSRC: mediaSSRC}, &kit.RTPSink{})
			c := &caller{reuse: reuse}
			for _, p := range hist {
				if err := c.write(w, p); err != nil {
					return nil, err
				}
			}
			_ = ic.Close()

			return []string{buf.String()}, nil
		}},
		{name: "packetdump-receiver-text", run: func(hist []*pkt, _ []uint16, reuse bool) ([]string, error) {
			buf := &syncBuffer{}
			f, err := packetdump.NewReceiverInterceptor(packetdump.RTPWriter(buf), packetdump.RTCPWriter(&syncBuffer{}),
				packetdump.RTPFormatter(slowTextFormatter), packetdump.RTPFilter(func(p *rtp.Packet) bool { return len(p.Payload) == 0 || p.Payload[0]%5 != 0 }))
			if err != nil {
				return nil, err
			}
			ic, err := f.NewInterceptor("")
			if err != nil {
				return nil, err
			}
			src := &kit.ByteSource{}
			r := ic.BindRemoteStream(&interceptor.StreamInfo{SSRC: mediaSSRC}, src)
			c := &caller{reuse: reuse}
			for _, p := range hist {
				src.Push(p.raw())
				if _, err := c.read(r); err != nil {
					return nil, err
				}
			}
			_ = ic.Close()

			return []string{buf.String()}, nil
		}},
		{name: "packetdump-sender-default-filter", run: func(hist []*pkt, _ []uint16, reuse bool) ([]string, error) {
			buf := &syncBuffer{}
			f, err := packetdump.NewSenderInterceptor(packetdump.RTPWriter(buf), packetdump.RTCPWriter(&syncBuffer{}),
				packetdump.RTPFilter(slowPayloadFilter)) // the built-in format, which prints no payload, with a filter that looks at it
			if err != nil {
				return nil, err
			}
			ic, err := f.NewInterceptor("")
			if err != nil {
				return nil, err
			}
			w := ic.BindLocalStream(&interceptor.StreamInfo{SSRC: mediaSSRC}, &kit.RTPSink{})
			c := &caller{reuse: reuse}
			for _, p := range hist {
				if err := c.write(w, p); err != nil {
					return nil, err
				}
			}
			_ = ic.Close()

			return []string{buf.String()}, nil
		}},
		{name: "packetdump-receiver-default-filter", run: func(hist []*pkt, _ []uint16, reuse bool) ([]string, error) {
			buf := &syncBuffer{}
			f, err := packetdump.NewReceiverInterceptor(packetdump.RTPWriter(buf), packetdump.RTCPWriter(&syncBuffer{}),
				packetdump.RTPFilter(slowPayloadFilter)) // the built-in format, which prints no payload, with a filter that looks at it
			if err != nil {
				return nil, err
			}
			ic, err := f.NewInterceptor("")
			if err != nil {
				return nil, err
			}
			src := &kit.ByteSource{}
			r := ic.BindRemoteStream(&interceptor.StreamInfo{SSRC: mediaSSRC}, src)
			c := &caller{reuse: reuse}
			for _, p := range hist {
				src.Push(p.raw())
				if _, err := c.read(r); err != nil {
					return nil, err
				}
			}
			_ = ic.Close()

			return []string{buf.String()}, nil
		}},
		{name: "stats", run: func(hist []*pkt, _ []uint16, reuse bool) ([]string, error) {
			fixed := time.Date(2024, 1, 1, 0, 0, 0, 0, time.UTC)
			f, _ := stats.NewInterceptor(stats.SetNowFunc(func() time.Time { return fixed }))
			var g stats.Getter
			f.OnNewPeerConnection(func(_ string, gg stats.Getter) { g = gg })
			ic, _ := f.NewInterceptor("")
			base := kit.StableGoroutines()
			w := ic.BindLocalStream(&interceptor.StreamInfo{SSRC: mediaSSRC, ClockRate: 90000}, &kit.RTPSink{})
			src := &kit.ByteSource{}
			r := ic.BindRemoteStream(&interceptor.StreamInfo{SSRC: mediaSSRC + 1, ClockRate: 90000}, src)
			kit.WaitGoroutines(base, 5*time.Second)
			c := &caller{reuse: reuse}
			for _, p := range hist {
				if err := c.write(w, p); err != nil {
					return nil, err
				}
				q := *p
				q.hdr = p.hdr.Clone()
				q.hdr.SSRC = mediaSSRC + 1
				src.Push(q.raw())
				if _, err := c.read(r); err != nil {
					return nil, err
				}
			}
			out := []string{fmt.Sprintf("%+v", *g.Get(mediaSSRC)), fmt.Sprintf("%+v", *g.Get(mediaSSRC + 1))}
			_ = ic.Close()

			return out, nil
		}},
		{name: "jitterbuffer-interceptor", run: func(hist []*pkt, _ []uint16, reuse bool) ([]string, error) {
			f, _ := jitterbuffer.NewInterceptor()
			ic, _ := f.NewInterceptor("")
			src := &kit.ByteSource{}
			r := ic.BindRemoteStream(&interceptor.StreamInfo{SSRC: mediaSSRC}, src)
			c := &caller{reuse: reuse}
			var out []string
			// the buffer starts emitting after 50 packets: repeat the history with fresh numbers until 70 reads
			for k := 0; k < 70; k++ {
				p := *hist[k%len(hist)]
				p.hdr = p.hdr.Clone()
				p.hdr.SequenceNumber = hist[0].hdr.SequenceNumber + uint16(k) //nolint:gosec
				src.Push(p.raw())
				b, err := c.read(r)
				if err == nil {
					out = append(out, fmt.Sprintf("%x", b))
				}
			}
			_ = ic.Close()

			return out, nil
		}},
		{name: "twcc-sender", run: func(hist []*pkt, _ []uint16, reuse bool) ([]string, error) {
			f, _ := twcc.NewSenderInterceptor(twcc.SendInterval(time.Millisecond))
			ic, _ := f.NewInterceptor("")
			sink := &kit.RTCPSink{}
			ic.BindRTCPWriter(sink)
			src := &kit.ByteSource{}
			r := ic.BindRemoteStream(&interceptor.StreamInfo{SSRC: mediaSSRC, RTPHeaderExtensions: []interceptor.RTPHeaderExtension{{URI: transportCCURI, ID: twccID}}}, src)
			c := &caller{reuse: reuse}
			for i, p := range hist {
				q := *p
				q.hdr = p.hdr.Clone()
				q.hdr.Extension, q.hdr.ExtensionProfile, q.hdr.Extensions = false, 0, nil
				ext, _ := (rtp.TransportCCExtension{TransportSequence: uint16(100 + 2*i)}).Marshal() //nolint:gosec
				_ = q.hdr.SetExtension(twccID, ext)
				src.Push(q.raw())
				if _, err := c.read(r); err != nil {
					return nil, err
				}
			}
			n := sink.Len()
			kit.Eventually(2*time.Second, func() bool { return sink.Len() >= n+2 })
			_ = ic.Close()
			// arrival times are wall clock: compare which transport numbers were reported received
			got := map[uint16]bool{}
			for _, call := range sink.Calls() {
				for _, rp := range call.Pkts {
					if fb, ok := rp.(*rtcp.TransportLayerCC); ok {
						raw, _ := fb.Marshal()
						if w, err := kit.DecodeTWCC(raw); err == nil {
							for i := 0; i < int(w.Count); i++ {
								if w.Symbols[i] != 0 {
									got[w.Base+uint16(i)] = true //nolint:gosec
								}
							}
						}
					}
				}
			}
			var out []string
			for k := range got {
				out = append(out, fmt.Sprint(k))
			}
			sort.Strings(out)

			return out, nil
		}},
		{name: "rtpfb", run: func(hist []*pkt, _ []uint16, reuse bool) ([]string, error) {
			f, _ := rtpfb.NewInterceptor()
			ic, _ := f.NewInterceptor("")
			w := ic.BindLocalStream(&interceptor.StreamInfo{SSRC: mediaSSRC, RTPHeaderExtensions: []interceptor.RTPHeaderExtension{{URI: transportCCURI, ID: twccID}}}, &kit.RTPSink{})
			src := &kit.ByteSource{}
			rr := ic.BindRTCPReader(src)
			c := &caller{reuse: reuse}
			for i, p := range hist {
				q := *p
				q.hdr = p.hdr.Clone()
				q.hdr.Extension, q.hdr.ExtensionProfile, q.hdr.Extensions = false, 0, nil
				ext, _ := (rtp.TransportCCExtension{TransportSequence: uint16(i)}).Marshal() //nolint:gosec
				_ = q.hdr.SetExtension(twccID, ext)
				if err := c.write(w, &q); err != nil {
					return nil, err
				}
			}
			fb := &rtcp.TransportLayerCC{SenderSSRC: 1, MediaSSRC: mediaSSRC, BaseSequenceNumber: 0, PacketStatusCount: uint16(len(hist)), ReferenceTime: 5, //nolint:gosec
				PacketChunks: []rtcp.PacketStatusChunk{&rtcp.RunLengthChunk{PacketStatusSymbol: rtcp.TypeTCCPacketReceivedSmallDelta, RunLength: uint16(len(hist))}}} //nolint:gosec
			size := 20 + 2 + len(hist)
			for i := 0; i < len(hist); i++ {
				fb.RecvDeltas = append(fb.RecvDeltas, &rtcp.RecvDelta{Type: rtcp.TypeTCCPacketReceivedSmallDelta, Delta: 250})
			}
			fb.Header = rtcp.Header{Count: rtcp.FormatTCC, Type: rtcp.TypeTransportSpecificFeedback, Padding: size%4 != 0, Length: uint16((size+3)/4 - 1)} //nolint:gosec
			raw, err := fb.Marshal()
			if err != nil {
				return nil, err
			}
			src.Push(raw)
			attr, err := c.readRTCP(rr)
			if err != nil {
				return nil, err
			}
			var out []string
			if rep, ok := attr.Get(rtpfb.CCFBAttributesKey).(rtpfb.Report); ok {
				for _, pr := range rep.PacketReports {
					out = append(out, fmt.Sprintf("%d ssrc=%x rtp=%d twcc=%d size=%d arrived=%v at=%v", pr.SequenceNumber, pr.SSRC, pr.RTPSequenceNumber, pr.TWCCSequenceNumber, pr.Size, pr.Arrived, pr.Arrival.UnixNano()))
				}
			}
			_ = ic.Close()

			return out, nil
		}},
	}
}

func runResponder(hist []*pkt, nackFor []uint16, reuse, rtx bool) ([]string, error) {
	f, _ := nack.NewResponderInterceptor(nack.ResponderSize(64))
	ic, _ := f.NewInterceptor("")
	info := &interceptor.StreamInfo{SSRC: mediaSSRC, RTCPFeedback: []interceptor.RTCPFeedback{{Type: "nack"}}}
	if rtx {
		info.SSRCRetransmission, info.PayloadTypeRetransmission = 0x3333, 97
	}
	sink := &kit.RTPSink{}
	w := ic.BindLocalStream(info, sink)
	src := &kit.ByteSource{}
	rr := ic.BindRTCPReader(src)
	base := kit.StableGoroutines()
	c := &caller{reuse: reuse}
	for _, p := range hist {
		if err := c.write(w, p); err != nil {
			return nil, err
		}
	}
	before := sink.Len()
	raw, _ := rtcp.Marshal([]rtcp.Packet{&rtcp.TransportLayerNack{SenderSSRC: 1, MediaSSRC: mediaSSRC, Nacks: rtcp.NackPairsFromSequenceNumbers(nackFor)}})
	src.Push(raw)
	if _, err := c.readRTCP(rr); err != nil {
		return nil, err
	}
	// the NACK is answered on goroutines of the interceptor; the baseline is exact because the run starts from an idle process (kit.Idle).
	// (Closing first would not do: Close clears the buffers, and a resend goroutine that has not looked its packets up yet finds nothing.)
	kit.WaitGoroutines(base, 10*time.Second)
	var out []string
	for _, s := range sink.Calls()[before:] {
		out = append(out, descRTP(s, rtx))
	}
	_ = ic.Close()

	return out, nil
}

// slowTextFormatter is a user formatter that prints header fields and payload bytes and takes its time (the caller has long moved on
// to its next packet when the logger goroutine gets here).
func slowTextFormatter(p *rtp.Packet, _ interceptor.Attributes) string {
	for i := 0; i < 10; i++ {
		runtime.Gosched()
	}

	return fmt.Sprintf("%d %d %v %x %x\n", p.SequenceNumber, p.Timestamp, p.CSRC, p.Header.GetExtensionIDs(), p.Payload)
}

// slowPayloadFilter is an application's "key frames only" filter: it decides on payload bytes, some time after it was called.
func slowPayloadFilter(p *rtp.Packet) bool {
	for i := 0; i < 20; i++ {
		runtime.Gosched()
	}

	return len(p.Payload) == 0 || p.Payload[0]%5 != 0
}

func TestCallerBuffersNotRetained(t *testing.T) {
	rec := kit.NewRecorder("C13", "fresh-vs-reused-buffers",
		"one generated packet history (<= 60 packets, all header shapes, payload 0..1400) replayed twice through each interceptor that stores or emits packet-derived data: once with "+
			"fresh header/payload/read buffer per call, once with one header object, one payload slice and one read buffer reused and scribbled as soon as each call returns; everything "+
			"emitted afterwards must be identical; non-trivial = the subject emitted something after the call that supplied its data returned; distinct by subject and history")
	subs := subjects()
	rapid.Check(t, func(t *rapid.T) {
		kit.Idle()
		si := rapid.IntRange(0, len(subs)-1).Draw(t, "subject")
		sub := subs[si]
		n := rapid.IntRange(4, 60).Draw(t, "packets")
		start := kit.U16Boundary().Draw(t, "start")
		hist := make([]*pkt, n)
		h := kit.NewH().S(sub.name)
		for i := range hist {
			hdr := kit.GenHeader(t, "h", kit.HeaderShape{NoPadding: true})
			hdr.SSRC, hdr.SequenceNumber, hdr.Timestamp = mediaSSRC, start+uint16(i), uint32(i)*3000 //nolint:gosec
			maxPayload := 1400
			if oversizeOK[sub.name] && rapid.IntRange(0, 3).Draw(t, "oversize") == 0 {
				maxPayload = 1580 // above the 1460-byte pool buffers some members use
			}
			payload := kit.Payload(t, "p", maxPayload)
			if len(payload) == 0 {
				payload = []byte{byte(i)}
			}
			hist[i] = &pkt{hdr: hdr, payload: payload}
			h.I(hdr.MarshalSize(), len(payload))
		}
		var nackFor []uint16
		for i := 0; i < n; i++ {
			if rapid.IntRange(0, 2).Draw(t, "nack") == 0 {
				nackFor = append(nackFor, start+uint16(i)) //nolint:gosec
			}
		}
		if len(nackFor) == 0 {
			nackFor = []uint16{start + uint16(n-1)} //nolint:gosec
		}
		var a, b []string
		var errA, errB error
		kit.Idle() // the baselines taken inside a run are exact only if nothing of an earlier run is still winding down
		if o := kit.Guard(60*time.Second, func() { a, errA = sub.run(hist, nackFor, false) }); !o.OK() {
			t.Fatalf("%s (fresh buffers): %s", sub.name, o)
		}
		kit.Idle()
		if o := kit.Guard(60*time.Second, func() { b, errB = sub.run(hist, nackFor, true) }); !o.OK() {
			t.Fatalf("%s (reused buffers): %s", sub.name, o)
		}
		for _, e := range []error{errA, errB} {
			if errors.Is(e, errPayloadModified) {
				t.Fatalf("%s: %v", sub.name, e)
			}
			if e != nil && strings.HasPrefix(e.Error(), "inconclusive") {
				t.Skip(e.Error())
			}
			if e != nil {
				t.Fatalf("%s: unexpected error: %v", sub.name, e)
			}
		}
		if len(a) != len(b) {
			t.Fatalf("%s: %d items emitted with fresh buffers, %d when the caller reuses its buffers", sub.name, len(a), len(b))
		}
		for i := range a {
			if a[i] != b[i] {
				x, y := a[i], b[i]
				d := 0
				for d < len(x) && d < len(y) && x[d] == y[d] {
					d++
				}
				t.Fatalf("%s: emission %d differs when the caller reuses and overwrites its header, payload and read buffer after each call returns:\n fresh : ...%s\n reused: ...%s",
					sub.name, i, x[max(0, d-40):min(len(x), d+60)], y[max(0, d-40):min(len(y), d+60)])
			}
		}
		rec.Case(h.Sum(), len(a) > 0, []string{sub.name}, func() any {
			return map[string]any{"subject": sub.name, "packets": n, "emitted_items": len(a), "first_emission_prefix": a[0][:min(len(a[0]), 120)]}
		})
	})
}
