package c07

import (
	"testing"
	"time"

	"github.com/pion/interceptor"
	"github.com/pion/interceptor/pkg/report"
	"github.com/pion/interceptor/verifharness/kit"
	"github.com/pion/rtcp"
	"github.com/pion/rtp"
)

func TestRegressFirstPacketTimestampZero(t *testing.T) {
	clk := &modelClock{t: epoch}
	tk := &manualTicker{ch: make(chan time.Time)}
	f, _ := report.NewSenderInterceptor(report.SenderNow(clk.now), report.SenderTicker(func(time.Duration) report.Ticker { return tk }))
	ic, _ := f.NewInterceptor("")
	sink := &kit.RTCPSink{}
	ic.BindRTCPWriter(sink)
	defer kit.BoundedClose(ic.Close)
	w := ic.BindLocalStream(&interceptor.StreamInfo{SSRC: 1, ClockRate: 90000}, &kit.RTPSink{})
	_, _ = w.Write(&rtp.Header{Version: 2, SSRC: 1, SequenceNumber: 1, Timestamp: 0}, []byte{1}, nil)
	clk.set(epoch.Add(time.Second))
	tk.ch <- epoch.Add(time.Second)
	if !kit.Eventually(kit.DefaultDeadline, func() bool { return sink.Len() >= 1 }) {
		t.Fatal("no sender report")
	}
	sr := sink.Calls()[0].Pkts[0].(*rtcp.SenderReport)   //nolint:forcetypeassert
	if d := int32(sr.RTPTime - 90000); d > 1 || d < -1 { //nolint:gosec
		kit.WriteReplay("TestRegressFirstPacketTimestampZero", []byte(`{"first_packet_ts":0,"rate":90000,"report_after_s":1}`))
		t.Fatalf("first packet with timestamp 0, report 1 s later at 90 kHz: RTP time %d, want 90000", sr.RTPTime)
	}
}
