package c07

import (
	"fmt"
	"math"
	"sort"
	"sync"
	"testing"
	"time"

	"github.com/pion/interceptor"
	"github.com/pion/interceptor/pkg/report"
	"github.com/pion/interceptor/verifharness/kit"
	"github.com/pion/rtcp"
	"github.com/pion/rtp"
	"pgregory.net/rapid"
)

var epoch = time.Date(2024, 3, 1, 12, 0, 0, 0, time.UTC)

type manualTicker struct{ ch chan time.Time }

func (m *manualTicker) Ch() <-chan time.Time { return m.ch }
func (m *manualTicker) Stop()                {}

type modelClock struct {
	mu sync.Mutex
	t  time.Time
}

func (c *modelClock) now() time.Time {
	c.mu.Lock()
	defer c.mu.Unlock()

	return c.t
}

func (c *modelClock) set(t time.Time) {
	c.mu.Lock()
	c.t = t
	c.mu.Unlock()
}

type streamModel struct {
	ssrc    uint32
	rate    float64
	count   uint32
	octets  uint32
	lastSN  uint16
	refTS   uint32
	refAt   time.Time
	haveRef bool
}

func (m *streamModel) sent(seq uint16, ts uint32, n int, at time.Time, useLatest bool) string {
	cl := "in-order"
	newest := useLatest || m.count == 0
	if m.count > 0 {
		d := seq - m.lastSN
		switch {
		case d == 0:
			cl = "duplicate"
		case d < 1<<15:
			newest = true
		default:
			cl = "out-of-order"
		}
	}
	if newest {
		m.lastSN = seq
		if !m.haveRef || ts != m.refTS {
			m.refTS, m.refAt, m.haveRef = ts, at, true
		} else if m.count > 0 {
			cl += "+same-frame"
		}
	}
	m.count++
	m.octets += uint32(n) //nolint:gosec

	return cl
}

func ntpOf(t time.Time) uint64 {
	sec := uint64(t.Unix()) + 2208988800 //nolint:gosec
	frac := uint64(t.Nanosecond()) << 32 / 1_000_000_000

	return sec<<32 | frac
}

type bound struct {
	info   *interceptor.StreamInfo
	sink   *kit.RTPSink
	w      interceptor.RTPWriter
	m      *streamModel
	cursor uint16
	ts     uint32
	// a run of old numbers being sent again: how many more, and the last one sent
	resend     int
	resendNext uint16
}

func TestSenderReports(t *testing.T) {
	rec := kit.NewRecorder("C07", "sender-reports",
		"send histories (in order, out of order, duplicates, multi-packet frames sharing a timestamp, timestamp wrap and timestamp 0, payload 0..1460) on 1-3 streams "+
			"with clock rates 8k..90k, both settings of use-latest-packet, model clock steps 0..hours, report ticks via SenderTicker at generated points; "+
			"non-trivial = an out-of-order send or multi-packet frame before a tick; distinct by history")
	rapid.Check(t, func(t *rapid.T) {
		clk := &modelClock{t: epoch}
		tk := &manualTicker{ch: make(chan time.Time)}
		useLatest := rapid.Bool().Draw(t, "useLatestPacket")
		opts := []report.SenderOption{report.SenderNow(clk.now), report.SenderTicker(func(time.Duration) report.Ticker { return tk })}
		if useLatest {
			opts = append(opts, report.SenderUseLatestPacket())
		}
		f, err := report.NewSenderInterceptor(opts...)
		if err != nil {
			t.Fatalf("factory: %v", err)
		}
		ic, err := f.NewInterceptor("")
		if err != nil {
			t.Fatalf("NewInterceptor: %v", err)
		}
		rtcpSink := &kit.RTCPSink{}
		ic.BindRTCPWriter(rtcpSink)
		defer kit.BoundedClose(ic.Close)
		ns := rapid.IntRange(1, 3).Draw(t, "streams")
		streams := make([]*bound, ns)
		for i := range streams {
			rate := rapid.SampledFrom([]uint32{8000, 48000, 90000}).Draw(t, "rate")
			info := &interceptor.StreamInfo{SSRC: uint32(40 + i), ClockRate: rate} //nolint:gosec
			if rapid.Bool().Draw(t, "rtxNegotiated") {
				info.SSRCRetransmission, info.PayloadTypeRetransmission = uint32(1040+i), 97 //nolint:gosec
			}
			b := &bound{info: info, sink: &kit.RTPSink{}, m: &streamModel{ssrc: info.SSRC, rate: float64(rate)}}
			b.w = ic.BindLocalStream(info, b.sink)
			b.cursor = kit.U16Boundary().Draw(t, "startSeq")
			b.ts = rapid.OneOf(rapid.Just(uint32(0)), kit.U32Boundary()).Draw(t, "startTS")
			streams[i] = b
		}
		now := epoch
		dt := rapid.OneOf(
			rapid.SampledFrom([]time.Duration{0, time.Microsecond, time.Millisecond, 20 * time.Millisecond, time.Second, time.Minute, 2 * time.Hour}),
			rapid.SampledFrom([]time.Duration{20 * time.Millisecond, 33 * time.Millisecond}),
			rapid.Custom(func(t *rapid.T) time.Duration { return time.Duration(rapid.Int64Range(0, 100_000_000).Draw(t, "ns")) }),
		)
		h := kit.NewH()
		classes := map[string]bool{}
		interesting, pendingInteresting := false, false
		ticks := 0
		var log []string
		logf := func(f string, a ...any) {
			if len(log) < 60 {
				log = append(log, fmt.Sprintf(f, a...))
			}
		}
		doTick := func() {
			now = now.Add(dt.Draw(t, "tickdt"))
			if rapid.IntRange(0, 3).Draw(t, "snap") == 0 {
				// report instants a few nanoseconds before a whole second: where a seconds/fraction split of the NTP conversion can lose its carry
				snapped := now.Truncate(time.Second).Add(time.Second - time.Duration(rapid.SampledFrom([]int{1, 2, 50, 119, 120, 200, 238, 477, 1000}).Draw(t, "beforeSecondNs")))
				if snapped.Before(now) {
					snapped = snapped.Add(time.Second)
				}
				now = snapped
				classes["report-just-before-a-whole-second"] = true
			}
			clk.set(now)
			from := rtcpSink.Len()
			tickAt := now
			// a slow transport: the write of the tick's first report is held up while the application goes on sending on the other
			// streams (the clock moves on); their reports, generated afterwards, still carry the instant of this tick
			var first chan uint32
			var release chan struct{}
			if ns >= 2 && rapid.IntRange(0, 2).Draw(t, "slowReportWrite") == 0 {
				// (the last write of the previous tick has been recorded, but may not have returned yet: the hook is for this tick's writes)
				kit.Eventually(3*kit.DefaultDeadline, func() bool { return rtcpSink.InFlight() == 0 })
				first, release = make(chan uint32, 1), make(chan struct{})
				var once sync.Once
				rtcpSink.OnCall = func(c kit.SentRTCP) {
					once.Do(func() {
						ssrc := uint32(0)
						if len(c.Pkts) > 0 {
							if sr, ok := c.Pkts[0].(*rtcp.SenderReport); ok {
								ssrc = sr.SSRC
							}
						}
						first <- ssrc
						<-release
					})
				}
			}
			select {
			case tk.ch <- now:
			case <-time.After(3 * kit.DefaultDeadline): // (three deadlines, as kit.Guard: a stalled process is not a blocked loop)
				t.Fatalf("ticker loop did not accept a tick within the watchdog deadline")
			}
			if first != nil {
				var held uint32
				select {
				case held = <-first:
				case <-time.After(3 * kit.DefaultDeadline): // (three deadlines, as kit.Guard: a stalled process is not a blocked loop)
					t.Fatalf("tick %d: no sender report was written within the watchdog deadline", ticks+1)
				}
				now = now.Add(time.Duration(rapid.Int64Range(1000, 20_000_000).Draw(t, "whileHeldNs")))
				clk.set(now)
				for _, b := range streams {
					if b.info.SSRC == held || b.resend > 0 {
						continue
					}
					b.cursor++
					if b.m.count > 0 {
						b.ts += 3000
					}
					payload := kit.Payload(t, "p", 1460)
					hdr := rtp.Header{Version: 2, SSRC: b.info.SSRC, SequenceNumber: b.cursor, Timestamp: b.ts}
					if _, err := b.w.Write(&hdr, payload, nil); err != nil {
						close(release)
						t.Fatalf("Write while a report write is held up: %v", err)
					}
					h.U(0xFFFC, uint64(b.info.SSRC), uint64(b.cursor)).I(len(payload))
					b.m.sent(b.cursor, b.ts, len(payload), now, useLatest)
				}
				classes["packets-sent-while-a-report-write-is-held-up"] = true
				close(release)
			}
			if !kit.Eventually(3*kit.DefaultDeadline, func() bool { return rtcpSink.Len() >= from+ns }) {
				t.Fatalf("tick %d: %d sender reports written for %d bound streams", ticks+1, rtcpSink.Len()-from, ns)
			}
			ticks++
			if first != nil {
				kit.Eventually(kit.DefaultDeadline, func() bool { return rtcpSink.InFlight() == 0 })
				rtcpSink.OnCall = nil
			}
			h.U(0xFFFF, uint64(tickAt.Sub(epoch)))
			if pendingInteresting {
				interesting = true
			}
			got := map[uint32]*rtcp.SenderReport{}
			for _, c := range rtcpSink.Calls()[from:] {
				for _, p := range c.Pkts {
					sr, ok := p.(*rtcp.SenderReport)
					if !ok {
						t.Fatalf("tick wrote a %T", p)
					}
					if got[sr.SSRC] != nil {
						t.Fatalf("two sender reports for ssrc %d in one tick", sr.SSRC)
					}
					got[sr.SSRC] = sr
				}
			}
			for _, b := range streams {
				sr := got[b.info.SSRC]
				if sr == nil {
					t.Fatalf("tick %d: no sender report for ssrc %d", ticks, b.info.SSRC)
				}
				where := fmt.Sprintf("tick %d at +%v, ssrc %d (%d packets sent)", ticks, tickAt.Sub(epoch), b.info.SSRC, b.m.count)
				if sr.PacketCount != b.m.count {
					t.Fatalf("%s: packet count %d, want %d", where, sr.PacketCount, b.m.count)
				}
				if sr.OctetCount != b.m.octets {
					t.Fatalf("%s: octet count %d, want %d", where, sr.OctetCount, b.m.octets)
				}
				want := ntpOf(tickAt)
				if d := int64(sr.NTPTime - want); d > 4295 || d < -4295 { //nolint:gosec
					t.Fatalf("%s: NTP time %#x, want %#x (report instant) within 1 us", where, sr.NTPTime, want)
				}
				if b.m.haveRef && !b.m.refAt.After(tickAt) { // (a reference packet stamped after the tick instant: the extrapolation backwards is not specified)
					el := tickAt.Sub(b.m.refAt).Seconds() * b.m.rate
					wantRTP := b.m.refTS + uint32(uint64(math.Floor(el)))  //nolint:gosec
					if d := int32(sr.RTPTime - wantRTP); d > 1 || d < -1 { //nolint:gosec
						t.Fatalf("%s: RTP time %d, want %d = reference timestamp %d (sent at +%v) + floor(%.6f s * %.0f) mod 2^32", where,
							sr.RTPTime, wantRTP, b.m.refTS, b.m.refAt.Sub(epoch), tickAt.Sub(b.m.refAt).Seconds(), b.m.rate)
					}
				}
				logf("tick +%v ssrc=%d count=%d rtp=%d", tickAt.Sub(epoch), b.info.SSRC, sr.PacketCount, sr.RTPTime)
			}
		}
		n := rapid.IntRange(1, 200).Draw(t, "steps")
		for i := 0; i < n; i++ {
			kind := rapid.IntRange(0, 15).Draw(t, "kind")
			if kind == 0 && ticks < 8 {
				doTick()

				continue
			}
			b := streams[rapid.IntRange(0, ns-1).Draw(t, "stream")]
			if rapid.IntRange(0, 60).Draw(t, "rebind") == 0 {
				// the same SSRC is bound again without an Unbind, possibly with another negotiated clock rate (a replaced track):
				// the reports of the new binding count its packets and use its clock rate
				rate := rapid.SampledFrom([]uint32{8000, 48000, 90000}).Draw(t, "rebindRate")
				b.info = &interceptor.StreamInfo{SSRC: b.info.SSRC, ClockRate: rate, SSRCRetransmission: b.info.SSRCRetransmission, PayloadTypeRetransmission: b.info.PayloadTypeRetransmission}
				b.m = &streamModel{ssrc: b.info.SSRC, rate: float64(rate)}
				b.w = ic.BindLocalStream(b.info, b.sink)
				classes["rebind-without-unbind"] = true
				h.U(0xFFFD, uint64(b.info.SSRC), uint64(rate))
			}
			var seq uint16
			newFrame := rapid.IntRange(0, 2).Draw(t, "newFrame") != 0
			switch {
			case kind <= 10:
				b.cursor++
				seq = b.cursor
			case kind == 11:
				seq = b.cursor
			case kind == 12:
				seq = b.cursor - uint16(rapid.IntRange(1, 20).Draw(t, "back")) //nolint:gosec
			case kind == 13:
				b.cursor += uint16(rapid.IntRange(2, 2000).Draw(t, "jump")) //nolint:gosec
				seq = b.cursor
			default:
				seq = b.cursor - uint16(rapid.IntRange(1, 30000).Draw(t, "farback")) //nolint:gosec
			}
			if b.resend > 0 { // the next number of a run of old packets sent again (a lost range re-sent in order)
				b.resend--
				b.resendNext++
				seq = b.resendNext
			} else if seq != b.cursor && rapid.IntRange(0, 3).Draw(t, "resendRun") == 0 {
				b.resend, b.resendNext = rapid.IntRange(1, 3).Draw(t, "resendMore"), seq
				classes["old-packets-resent-in-a-run"] = true
			}
			step := dt.Draw(t, "dt")
			if step > time.Hour && now.Sub(epoch) > 6*time.Hour {
				step = time.Second
			}
			now = now.Add(step)
			clk.set(now)
			ts := b.ts
			if seq != b.cursor { // an older packet carries an older timestamp
				ts = b.ts - uint32(b.cursor-seq)*3000
			} else if newFrame && b.m.count > 0 {
				b.ts += rapid.OneOf(rapid.Just(uint32(3000)), rapid.Uint32Range(1, 200000)).Draw(t, "tsstep")
				ts = b.ts
			}
			payload := kit.Payload(t, "p", 1460)
			hdr := kit.GenHeader(t, "h", kit.HeaderShape{})
			hdr.SSRC, hdr.SequenceNumber, hdr.Timestamp = b.info.SSRC, seq, ts
			if b.info.SSRCRetransmission != 0 && rapid.IntRange(0, 5).Draw(t, "rtxSSRC") == 0 {
				// what a NACK responder placed above this interceptor writes on the stream's writer: a packet under the negotiated RTX SSRC.
				// The statement counts the RTP packets written on the stream, whatever their header says.
				hdr.SSRC = b.info.SSRCRetransmission
				classes["packet-under-the-rtx-ssrc"] = true
			}
			before := b.sink.Len()
			if _, err := b.w.Write(&hdr, payload, nil); err != nil {
				t.Fatalf("Write: %v", err)
			}
			if b.sink.Len() != before+1 {
				t.Fatalf("Write did not reach the next writer exactly once")
			}
			h.U(uint64(b.info.SSRC), uint64(seq), uint64(ts), uint64(step)).I(len(payload))
			cl := b.m.sent(seq, ts, len(payload), now, useLatest)
			classes[cl] = true
			if ts == 0 {
				classes["timestamp-0"] = true
			}
			if cl != "in-order" {
				pendingInteresting = true
			}
			logf("ssrc=%d seq=%d ts=%d len=%d +%v (%s)", b.info.SSRC, seq, ts, len(payload), step, cl)
		}
		doTick()
		var cl []string
		for c := range classes {
			cl = append(cl, c)
		}
		sort.Strings(cl)
		rec.Case(h.Sum(), interesting, append(cl, fmt.Sprintf("useLatest=%v", useLatest)), func() any {
			return map[string]any{"streams": ns, "use_latest_packet": useLatest, "ticks": ticks, "events": log}
		})
	})
}
