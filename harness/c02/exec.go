// Package c02 checks that no untrusted packet crashes or wedges an interceptor.
package c02

import (
	"bytes"
	"encoding/json"
	"fmt"
	"time"

	"github.com/pion/interceptor"
	"github.com/pion/interceptor/verifharness/kit"
	"github.com/pion/rtcp"
	"github.com/pion/rtp"
)

// Case is one fully materialised test case (JSON: it doubles as the crash journal entry and the replay file).
type Case struct {
	Member     string   `json:"member"` // a catalog name, or "chain" for all of them in one chain
	Kind       string   `json:"kind"`   // "rtp-in", "rtcp-in", "rtp-out"
	History    int      `json:"history"`
	Inputs     [][]byte `json:"inputs"` // hostile byte strings (rtp-in / rtcp-in)
	OutHeader  []byte   `json:"out_header,omitempty"`
	OutPayload int      `json:"out_payload,omitempty"`
	OutPadding byte     `json:"out_padding,omitempty"` // padding count of the outgoing packets when the header has the padding bit (the count is not part of the header bytes)
	OutMore    []int    `json:"out_more,omitempty"`    // further outgoing payload sizes, written right after the first with consecutive sequence numbers
	Dirty      byte     `json:"dirty"`
	SpareCap   bool     `json:"spare_cap,omitempty"` // the short caller buffer is a sub-slice of a larger one (len < cap): still only len bytes are the caller's to fill
	ReadBuf    int      `json:"read_buf,omitempty"`  // size of the caller's buffer for the hostile reads (0: 1700 bytes); a short one truncates like a datagram read
	Fast       bool     `json:"fast,omitempty"`      // fuzzing: skip the pauses that let ticker goroutines run
	Order      uint64   `json:"order,omitempty"`     // "chain": 0 keeps the catalog order, otherwise the seed of a permutation of the members
}

const (
	twccID   = 5
	interval = 500 * time.Microsecond
	deadline = 20 * time.Second
)

type rig struct {
	ics        []interceptor.Interceptor
	members    []kit.Member
	chain      interceptor.Interceptor
	rtcpSink   *kit.RTCPSink
	rtpSink    *kit.RTPSink
	rtpSrc     *kit.ByteSource
	rtcpSrc    *kit.ByteSource
	reader     interceptor.RTPReader
	rtcpReader interceptor.RTCPReader
	writer     interceptor.RTPWriter
	async      bool
	buffering  bool
	twccOut    uint16
	seqOut     uint16
	seqIn      uint16
}

func newRig(member string, order uint64) (*rig, error) {
	r := &rig{rtcpSink: &kit.RTCPSink{}, rtpSink: &kit.RTPSink{}, rtpSrc: &kit.ByteSource{}, rtcpSrc: &kit.ByteSource{}}
	names := []string{member}
	withJB := member == "chain-jb" // the pass-through members around the jitter buffer: what it hands out is an older packet than the one just read
	if withJB {
		member = "chain"
	}
	if member == "chain" {
		names = append([]string(nil), kit.AllNames...)
		if order != 0 { // which member sees a packet first (and what it leaves in the shared attributes) depends on the order
			x := order | 1
			for i := len(names) - 1; i > 0; i-- {
				x ^= x << 13
				x ^= x >> 7
				x ^= x << 17
				j := int(x % uint64(i+1)) //nolint:gosec
				names[i], names[j] = names[j], names[i]
			}
		}
	}
	for _, n := range names {
		if member == "chain" && (n == "pacing" || n == "cc-leaky-bucket" || n == "jitterbuffer" && !withJB) {
			continue // the chain keeps delivery synchronous; these three are exercised on their own
		}
		if withJB && (n == "cc-noop-pacer" || n == "flexfec") {
			continue // (observation a: repair packets through an inner estimator)
		}
		if member == "chain" && (n == "cc-user-pacer" || order != 0 && n == "cc-noop-pacer") { // (one cc member per chain)
			// inside an FEC or RTX member the estimator's pacer answers "unknown ssrc" for repair packets and the error is joined into the
			// application's write (DESIGN 8.2, observation a): the cc member keeps its catalog position (order 0) and its own cases
			continue
		}
		m := kit.NewMember(n, interval)
		ic, err := m.Factory.NewInterceptor("c02")
		if err != nil {
			return nil, fmt.Errorf("NewInterceptor(%s): %w", n, err)
		}
		r.ics = append(r.ics, ic)
		r.members = append(r.members, m)
		r.async = r.async || m.Async
		r.buffering = r.buffering || m.Buffering
	}
	r.chain = interceptor.NewChain(r.ics)
	r.chain.BindRTCPWriter(r.rtcpSink)
	r.rtcpReader = r.chain.BindRTCPReader(r.rtcpSrc)
	r.reader = r.chain.BindRemoteStream(kit.RemoteInfo(0x7001, twccID), r.rtpSrc)
	r.writer = r.chain.BindLocalStream(kit.LocalInfo(0x6001, twccID, true, true), r.rtpSink)

	return r, nil
}

func (r *rig) goodIncoming() []byte {
	h := kit.WithTWCC(rtp.Header{Version: 2, SSRC: 0x7001, PayloadType: 96, SequenceNumber: r.seqIn, Timestamp: uint32(r.seqIn) * 3000}, twccID, r.seqIn)
	r.seqIn++
	b, _ := (&rtp.Packet{Header: h, Payload: []byte{1, 2, 3, 4}}).Marshal()

	return b
}

func (r *rig) goodOutgoing() (rtp.Header, []byte) {
	h := kit.WithTWCC(rtp.Header{Version: 2, SSRC: 0x6001, PayloadType: 96, SequenceNumber: r.seqOut, Timestamp: uint32(r.seqOut) * 3000}, twccID, r.twccOut)
	r.seqOut++
	r.twccOut++

	return h, []byte{9, 8, 7, 6, 5}
}

// verdict of executing a case: "" or a description of the violation.
func execute(c *Case) string { //nolint:cyclop
	r, err := newRig(c.Member, c.Order)
	if err != nil {
		return "harness: " + err.Error()
	}
	closed := false
	defer func() {
		if !closed {
			_ = kit.Guard(deadline, func() { _ = r.chain.Close() })
		}
	}()
	guard := func(what string, fn func()) string {
		o := kit.Guard(deadline, fn)
		if !o.OK() {
			return fmt.Sprintf("%s (%s, %s): %s", what, c.Member, c.Kind, o)
		}

		return ""
	}
	maxDelivered := 0
	readRTP := func(raw []byte, what string, wellFormed bool) string {
		r.rtpSrc.Push(raw)
		buf := bytes.Repeat([]byte{c.Dirty}, 1700)
		if !wellFormed && c.ReadBuf > 0 {
			if c.SpareCap {
				buf = buf[:c.ReadBuf-1] // len < cap (1700)
			} else {
				buf = buf[: c.ReadBuf-1 : c.ReadBuf-1] // ReadBuf 1 is the empty buffer
			}
			if len(raw) > len(buf) {
				raw = raw[:len(buf)] // what the transport hands over
			}
		}
		var n int
		var rerr error
		if v := guard(what, func() { n, _, rerr = r.reader.Read(buf, interceptor.Attributes{}) }); v != "" {
			return v
		}
		maxDelivered = max(maxDelivered, len(raw))
		limit := len(raw)
		if r.buffering {
			limit = maxDelivered
		}
		if n > limit || n < 0 {
			return fmt.Sprintf("%s (%s): Read reports %d bytes, the transport delivered %d", what, c.Member, n, limit)
		}
		if n > len(buf) {
			return fmt.Sprintf("%s (%s): Read reports %d bytes for a caller buffer of %d bytes", what, c.Member, n, len(buf))
		}
		if wellFormed && !r.buffering {
			if rerr != nil || n != len(raw) || !bytes.Equal(buf[:n], raw) {
				return fmt.Sprintf("%s (%s): well-formed packet not passed through: n=%d err=%v (want %d bytes)", what, c.Member, n, rerr, len(raw))
			}
		}

		return ""
	}
	readRTCP := func(raw []byte, what string, wellFormed bool) string {
		r.rtcpSrc.Push(raw)
		buf := bytes.Repeat([]byte{c.Dirty}, 1700+len(raw))
		if !wellFormed && c.ReadBuf > 0 {
			buf = buf[: c.ReadBuf-1 : c.ReadBuf-1]
			if len(raw) > len(buf) {
				raw = raw[:len(buf)]
			}
		}
		var n int
		var rerr error
		if v := guard(what, func() { n, _, rerr = r.rtcpReader.Read(buf, interceptor.Attributes{}) }); v != "" {
			return v
		}
		if n > len(raw) || n < 0 || n > len(buf) {
			return fmt.Sprintf("%s (%s): Read reports %d bytes, the transport delivered %d into a buffer of %d", what, c.Member, n, len(raw), len(buf))
		}
		if wellFormed && (rerr != nil || n != len(raw) || !bytes.Equal(buf[:n], raw)) {
			return fmt.Sprintf("%s (%s): well-formed compound not passed through: n=%d err=%v", what, c.Member, n, rerr)
		}

		return ""
	}
	writeRTP := func(h rtp.Header, payload []byte, what string, wellFormed bool) string {
		before := r.rtpSink.Len()
		var werr error
		if v := guard(what, func() { _, werr = r.writer.Write(&h, payload, interceptor.Attributes{}) }); v != "" {
			return v
		}
		if wellFormed {
			if werr != nil {
				return fmt.Sprintf("%s (%s): well-formed packet refused: %v", what, c.Member, werr)
			}
			if !kit.Eventually(5*time.Second, func() bool { return r.rtpSink.Len() > before }) {
				return fmt.Sprintf("%s (%s): well-formed packet never reached the transport", what, c.Member)
			}
		}

		return ""
	}
	// prior history: well-formed traffic in every direction
	for i := 0; i < c.History; i++ {
		if v := readRTP(r.goodIncoming(), "history read", true); v != "" {
			return v
		}
		h, p := r.goodOutgoing()
		if v := writeRTP(h, p, "history write", true); v != "" {
			return v
		}
	}
	switch c.Kind {
	case "rtp-in":
		for _, in := range c.Inputs {
			if v := readRTP(in, "hostile RTP read", false); v != "" {
				return v
			}
		}
	case "rtcp-in":
		for _, in := range c.Inputs {
			if v := readRTCP(in, "hostile RTCP read", false); v != "" {
				return v
			}
		}
	case "rtp-out":
		var h rtp.Header
		if _, err := h.Unmarshal(c.OutHeader); err != nil {
			return "harness: out header: " + err.Error()
		}
		h.SSRC = 0x6001
		if h.Padding {
			h.PaddingSize = max(1, c.OutPadding)
		}
		// consecutive with the history, so that batching members (FEC) take the packet into their next batch
		for i, size := range append([]int{c.OutPayload}, c.OutMore...) {
			hh := h.Clone()
			hh.SequenceNumber = r.seqOut
			r.seqOut++
			if id := hh.GetExtension(twccID); id != nil {
				r.twccOut++
			}
			if v := writeRTP(hh, kit.FillBytes(size, uint64(size)+uint64(i)+1), "oversize/odd outgoing write", false); v != "" {
				return v
			}
		}
	}
	// let ticker goroutines and asynchronous deliveries run over the hostile state
	if !c.Fast {
		time.Sleep(4 * interval)
	}
	// the interceptor keeps working for well-formed traffic
	if v := readRTP(r.goodIncoming(), "probe read", true); v != "" {
		return v
	}
	rr, _ := rtcp.Marshal([]rtcp.Packet{&rtcp.ReceiverReport{SSRC: 1}, &rtcp.PictureLossIndication{SenderSSRC: 1, MediaSSRC: 0x6001}})
	if v := readRTCP(rr, "probe RTCP read", true); v != "" {
		return v
	}
	h, p := r.goodOutgoing()
	if v := writeRTP(h, p, "probe write", true); v != "" {
		return v
	}
	if !c.Fast {
		time.Sleep(2 * interval)
	}
	closed = true
	if v := guard("Close", func() { _ = r.chain.Close() }); v != "" {
		return v
	}

	return ""
}

func mustJSON(c *Case) []byte {
	b, err := json.Marshal(c)
	if err != nil {
		panic(err)
	}

	return b
}
