package c02

import (
	"os"
	"testing"

	"github.com/pion/interceptor/verifharness/kit"
	"github.com/pion/rtcp"
	"github.com/pion/rtp"
)

func seedRTP(f *testing.F) {
	if os.Getenv("VERIF_FUZZ_EMPTY") == "1" {
		return
	}
	h := kit.WithTWCC(rtp.Header{Version: 2, SSRC: 0x7001, PayloadType: 96, SequenceNumber: 7, CSRC: []uint32{1, 2}}, twccID, 9)
	b, _ := (&rtp.Packet{Header: h, Payload: []byte{1, 2, 3}}).Marshal()
	f.Add(b)
	f.Add([]byte{0x90, 96, 0, 1, 0, 0, 0, 2, 0, 0, 0x70, 1})                         // X bit, nothing behind it
	f.Add([]byte{0xbf, 96, 0, 1, 0, 0, 0, 2, 0, 0, 0x70, 1, 0, 0, 0, 0})             // padding + 15 CSRCs claimed
	f.Add([]byte{0x90, 96, 0, 1, 0, 0, 0, 2, 0, 0, 0x70, 1, 0xbe, 0xde, 0xff, 0xff}) // extension length lies
	f.Add([]byte{0xa0, 96, 0, 1, 0, 0, 0, 2, 0, 0, 0x70, 1, 1, 0xff})                // padding count larger than the packet
}

func seedRTCP(f *testing.F) {
	if os.Getenv("VERIF_FUZZ_EMPTY") == "1" {
		return
	}
	add := func(p ...rtcp.Packet) {
		if b, err := rtcp.Marshal(p); err == nil {
			f.Add(b)
		}
	}
	add(&rtcp.ReceiverReport{SSRC: 1, Reports: []rtcp.ReceptionReport{{SSRC: 0x6001, LastSenderReport: 1, Delay: 1}}})
	add(&rtcp.TransportLayerNack{SenderSSRC: 1, MediaSSRC: 0x6001, Nacks: []rtcp.NackPair{{PacketID: 1, LostPackets: 0xffff}}})
	add(&rtcp.CCFeedbackReport{SenderSSRC: 1, ReportTimestamp: 9, ReportBlocks: []rtcp.CCFeedbackReportBlock{{MediaSSRC: 0x6001, BeginSequence: 65534,
		MetricBlocks: []rtcp.CCFeedbackMetricBlock{{Received: true, ArrivalTimeOffset: 3}, {}, {Received: true, ArrivalTimeOffset: 0x1fff}}}}})
	add(&rtcp.ExtendedReport{SenderSSRC: 1, Reports: []rtcp.ReportBlock{&rtcp.DLRRReportBlock{Reports: []rtcp.DLRRReport{{SSRC: 0x7001, LastRR: 1, DLRR: 1}}}}})
	// a transport-cc feedback: status count 1, run-length chunk of 100 received symbols, one delta
	f.Add([]byte{0xaf, 205, 0, 5, 0, 0, 0, 1, 0, 0, 0x60, 1, 0, 0, 0, 1, 0, 0, 3, 0, 0x20, 100, 1, 1})
	f.Add([]byte{0x8f, 205, 0, 5, 0, 0, 0, 1, 0, 0, 0x60, 1, 0, 0, 0xff, 0xff, 0, 0, 3, 0, 0xd5, 0x55, 1, 1})
	f.Add([]byte{0x8b, 205, 0, 4, 0, 0, 0, 1, 0, 0, 0, 9, 0, 0, 0x60, 1, 0xff, 0xfe, 0x40, 0x00}) // RFC 8888 block with a huge num_reports
}

func fuzzOne(t *testing.T, kind string, data []byte) {
	t.Helper()
	if len(data) > 1500 {
		data = data[:1500]
	}
	for _, member := range []string{"chain", "jitterbuffer"} {
		if member == "jitterbuffer" && kind != "rtp-in" {
			continue
		}
		c := &Case{Member: member, Kind: kind, History: 2, Inputs: [][]byte{data}, Dirty: 0xA5, Fast: true}
		if v := execute(c); v != "" {
			t.Fatalf("%s", v)
		}
	}
}

func FuzzIncomingRTP(f *testing.F) {
	seedRTP(f)
	f.Fuzz(func(t *testing.T, data []byte) { fuzzOne(t, "rtp-in", data) })
}

func FuzzIncomingRTCP(f *testing.F) {
	seedRTCP(f)
	f.Fuzz(func(t *testing.T, data []byte) { fuzzOne(t, "rtcp-in", data) })
}
