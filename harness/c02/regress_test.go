package c02

import (
	"testing"

	"github.com/pion/interceptor/verifharness/kit"
)

func regress(t *testing.T, name string, c *Case) {
	t.Helper()
	if v := execute(c); v != "" {
		kit.WriteReplay("TestHostileInputs", mustJSON(c))
		t.Fatalf("%s: %s", name, v)
	}
}

func TestRegressPacketdumpShortPacketWithXBit(t *testing.T) {
	regress(t, "12-byte packet with the X bit", &Case{Member: "packetdump-receiver", Kind: "rtp-in", History: 1, Dirty: 0xA5,
		Inputs: [][]byte{{0x90, 96, 0, 1, 0, 0, 0, 2, 0, 0, 0x70, 1}}})
}

func TestRegressRtpfbRunLengthBeyondDeltas(t *testing.T) {
	regress(t, "TWCC run length 100, status count 1, one delta", &Case{Member: "rtpfb", Kind: "rtcp-in", History: 2, Dirty: 0,
		Inputs: [][]byte{{0xaf, 205, 0, 5, 0, 0, 0, 1, 0, 0, 0x60, 1, 0, 0, 0, 1, 0, 0, 3, 0, 0x20, 100, 1, 1}}})
}

func TestRegressLeakyBucketLargePayload(t *testing.T) {
	regress(t, "2000-byte payload through the leaky bucket pacer", &Case{Member: "cc-leaky-bucket", Kind: "rtp-out", History: 1,
		OutHeader: []byte{0x80, 96, 0, 1, 0, 0, 0, 2, 0, 0, 0x60, 1}, OutPayload: 2000})
}

func TestRegressJitterBufferDuplicateDoesNotWedge(t *testing.T) {
	dup := []byte{0x80, 96, 0, 0, 0, 0, 0, 0, 0, 0, 0x70, 1, 1}
	regress(t, "duplicate of the lowest buffered packet", &Case{Member: "jitterbuffer", Kind: "rtp-in", History: 3, Inputs: [][]byte{dup, dup, dup}})
}

// TestKnownPacingOversizeBlocksQueue reproduces the listed known finding on its exact signature.
func TestKnownPacingOversizeBlocksQueue(t *testing.T) {
	rec := kit.NewRecorder("C02", "known-pacing-oversize", "fixed reproduction: a 65535-byte payload written through the pacing interceptor (500 Mbit/s, 1 ms), then a well-formed packet")
	c := &Case{Member: "pacing", Kind: "rtp-out", History: 1, OutHeader: []byte{0x80, 96, 0, 1, 0, 0, 0, 2, 0, 0, 0x60, 1}, OutPayload: 65535}
	v := execute(c)
	rec.Case(1, true, nil, func() any { return map[string]any{"member": "pacing", "out_payload": 65535, "verdict": v} })
	rec.Case(2, true, nil, nil)
	if v == "" {
		return
	}
	if kit.Known("C02-pacing-oversize-blocks-queue") {
		rec.KnownHit("C02-pacing-oversize-blocks-queue")

		return
	}
	kit.WriteReplay("TestHostileInputs", mustJSON(c))
	t.Fatalf("%s", v)
}
