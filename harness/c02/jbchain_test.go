package c02

import (
	"testing"

	"github.com/pion/interceptor"
	"github.com/pion/interceptor/verifharness/kit"
	"github.com/pion/rtp"
)

// TestRegressJitterBufferStaleHeaderInChain: report receiver (parses and caches the RTP header in the attributes), jitter buffer (hands out an
// older packet), packet dump receiver (trusts the cached header): 50 short packets, then one with 15 CSRCs.
func TestRegressJitterBufferStaleHeaderInChain(t *testing.T) {
	var ics []interceptor.Interceptor
	for _, n := range []string{"report-receiver", "jitterbuffer", "packetdump-receiver"} {
		ic, err := kit.NewMember(n, interval).Factory.NewInterceptor("x")
		if err != nil {
			t.Fatal(err)
		}
		ics = append(ics, ic)
	}
	chain := interceptor.NewChain(ics)
	defer kit.BoundedClose(chain.Close)
	chain.BindRTCPWriter(&kit.RTCPSink{})
	src := &kit.ByteSource{}
	r := chain.BindRemoteStream(kit.RemoteInfo(0x7001, twccID), src)
	read := func(h rtp.Header, payload []byte) {
		raw, _ := (&rtp.Packet{Header: h, Payload: payload}).Marshal()
		src.Push(raw)
		if o := kit.Guard(0, func() { _, _, _ = r.Read(make([]byte, 1500), interceptor.Attributes{}) }); !o.OK() {
			kit.WriteReplay("TestRegressJitterBufferStaleHeaderInChain", []byte(`{"chain":["report-receiver","jitterbuffer","packetdump-receiver"],"packets":"50 x 13 bytes, then one with 15 CSRCs"}`))
			t.Fatalf("Read of packet %d: %s", h.SequenceNumber, o)
		}
	}
	for i := 0; i < 55; i++ {
		read(rtp.Header{Version: 2, SSRC: 0x7001, SequenceNumber: uint16(i)}, []byte{1}) //nolint:gosec
	}
	for i := 55; i < 60; i++ {
		read(rtp.Header{Version: 2, SSRC: 0x7001, SequenceNumber: uint16(i), CSRC: make([]uint32, 15)}, []byte{1}) //nolint:gosec
	}
}
