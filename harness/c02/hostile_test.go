package c02

import (
	"encoding/json"
	"fmt"
	"os"
	"testing"

	"github.com/pion/interceptor/verifharness/kit"
	"github.com/pion/rtcp"
	"github.com/pion/rtp"
	"pgregory.net/rapid"
)

var members = append([]string{"chain", "chain", "chain-jb", "chain-jb", "jitterbuffer"}, kit.AllNames...)

// genRTPIn draws incoming RTP byte strings: valid packets, truncations at every boundary, bit flips, raw bytes.
func genRTPIn(t *rapid.T) []byte {
	h := kit.GenHeader(t, "h", kit.HeaderShape{})
	h.SSRC = 0x7001
	h.SequenceNumber = rapid.Uint16().Draw(t, "seq")
	if rapid.Bool().Draw(t, "twcc") && h.ExtensionProfile != rtp.ExtensionProfileTwoByte {
		h = kit.WithTWCC(h, twccID, rapid.Uint16().Draw(t, "tw"))
	}
	payload := kit.Payload(t, "p", 1400)
	if h.Padding && len(payload) == 0 {
		payload = []byte{0}
	}
	raw, err := (&rtp.Packet{Header: h, Payload: payload}).Marshal()
	if err != nil {
		raw = []byte{0x80, 0, 0, 0, 0, 0, 0, 0, 0, 0, 0, 0}
	}
	switch rapid.IntRange(0, 6).Draw(t, "mut") {
	case 0: // as is
	case 1: // truncate at a header boundary or anywhere
		cut := rapid.OneOf(rapid.SampledFrom([]int{0, 1, 2, 4, 8, 11, 12, 13, 16}), rapid.IntRange(0, len(raw))).Draw(t, "cut")
		raw = raw[:min(cut, len(raw))]
	case 2: // bit flips in the header area
		for i, n := 0, rapid.IntRange(1, 4).Draw(t, "flips"); i < n; i++ {
			pos := rapid.IntRange(0, min(len(raw), 40)-1).Draw(t, "pos")
			raw[pos] ^= 1 << rapid.IntRange(0, 7).Draw(t, "bit")
		}
	case 3: // X bit / CC / padding bit set on a short packet
		raw = raw[:min(len(raw), rapid.IntRange(12, 20).Draw(t, "short"))]
		raw[0] |= byte(rapid.SampledFrom([]int{0x10, 0x20, 0x0F, 0x3F}).Draw(t, "bits"))
	case 4: // extension length lies
		if h.Extension && len(raw) > 16+4*len(h.CSRC) {
			off := 12 + 4*len(h.CSRC) + 2
			raw[off], raw[off+1] = byte(rapid.IntRange(0, 255).Draw(t, "extlenhi")), byte(rapid.IntRange(0, 255).Draw(t, "extlenlo"))
		}
	case 5: // padding count lies
		raw[0] |= 0x20
		raw[len(raw)-1] = byte(rapid.IntRange(0, 255).Draw(t, "padcount"))
	default:
		raw = rapid.SliceOfN(rapid.Byte(), 0, 64).Draw(t, "raw")
	}

	return raw
}

// genRTCPIn draws incoming RTCP byte strings, many of which parse but are internally inconsistent.
func genRTCPIn(t *rapid.T) (raw []byte, class string) { //nolint:cyclop
	marshal := func(p ...rtcp.Packet) []byte {
		b, err := rtcp.Marshal(p)
		if err != nil {
			return []byte{0x80, 201, 0, 1, 0, 0, 0, 1}
		}

		return b
	}
	switch rapid.IntRange(0, 9).Draw(t, "rtcpKind") {
	case 0: // TWCC whose run length exceeds the status count / fewer deltas than received symbols
		count := rapid.SampledFrom([]int{0, 1, 2, 7, 100}).Draw(t, "count")
		run := rapid.SampledFrom([]int{1, 8, 100, 0x1fff}).Draw(t, "run")
		sym := rapid.SampledFrom([]uint16{rtcp.TypeTCCPacketReceivedSmallDelta, rtcp.TypeTCCPacketReceivedLargeDelta, rtcp.TypeTCCPacketNotReceived, rtcp.TypeTCCPacketReceivedWithoutDelta}).Draw(t, "sym")
		fb := &rtcp.TransportLayerCC{SenderSSRC: 1, MediaSSRC: 0x6001, BaseSequenceNumber: rapid.Uint16Range(0, 20).Draw(t, "base"), PacketStatusCount: uint16(count), //nolint:gosec
			ReferenceTime: 3, PacketChunks: []rtcp.PacketStatusChunk{&rtcp.RunLengthChunk{Type: rtcp.TypeTCCRunLengthChunk, PacketStatusSymbol: sym, RunLength: uint16(run)}}} //nolint:gosec
		for i, n := 0, rapid.IntRange(0, min(count, 3)).Draw(t, "deltas"); i < n; i++ {
			fb.RecvDeltas = append(fb.RecvDeltas, &rtcp.RecvDelta{Type: rtcp.TypeTCCPacketReceivedSmallDelta, Delta: 250})
		}
		size := 20 + 2 + len(fb.RecvDeltas)
		fb.Header = rtcp.Header{Count: rtcp.FormatTCC, Type: rtcp.TypeTransportSpecificFeedback, Padding: size%4 != 0, Length: uint16((size+3)/4 - 1)} //nolint:gosec

		return marshal(fb), "twcc-run-vs-count"
	case 1: // status vector with more received symbols than the status count covers, padding symbols non-zero
		count := rapid.IntRange(0, 7).Draw(t, "count")
		list := make([]uint16, 7)
		for i := range list {
			list[i] = uint16(rapid.IntRange(0, 3).Draw(t, "s")) //nolint:gosec
		}
		fb := &rtcp.TransportLayerCC{SenderSSRC: 1, MediaSSRC: 0x6001, BaseSequenceNumber: rapid.Uint16Range(0, 20).Draw(t, "base"), PacketStatusCount: uint16(count), ReferenceTime: 3, //nolint:gosec
			PacketChunks: []rtcp.PacketStatusChunk{&rtcp.StatusVectorChunk{Type: rtcp.TypeTCCStatusVectorChunk, SymbolSize: rtcp.TypeTCCSymbolSizeTwoBit, SymbolList: list}}}
		nd := 0
		for i, s := range list {
			if i < count && (s == 1 || s == 2) {
				fb.RecvDeltas = append(fb.RecvDeltas, &rtcp.RecvDelta{Type: s, Delta: 250})
				nd += int(s)
			}
		}
		size := 20 + 2 + nd
		fb.Header = rtcp.Header{Count: rtcp.FormatTCC, Type: rtcp.TypeTransportSpecificFeedback, Padding: size%4 != 0, Length: uint16((size+3)/4 - 1)} //nolint:gosec

		return marshal(fb), "twcc-vector-vs-count"
	case 2: // a valid TWCC feedback whose bytes are then edited: status count, chunk bits, truncation
		spec := kit.TWCCSpec{Base: rapid.Uint16Range(0, 10).Draw(t, "base"), RefTime: 4}
		for i, n := 0, rapid.IntRange(1, 30).Draw(t, "n"); i < n; i++ {
			spec.Statuses = append(spec.Statuses, kit.TWCCStatus{Received: i == 0 || rapid.Bool().Draw(t, "rx"), Delta250: int64(rapid.IntRange(-300, 300).Draw(t, "d"))})
		}
		b := marshal(kit.EncodeTWCC(t, spec, 0))
		switch rapid.IntRange(0, 3).Draw(t, "edit") {
		case 0:
			v := rapid.SampledFrom([]int{0, 1, 0xffff, len(spec.Statuses) + 1, len(spec.Statuses) + 200}).Draw(t, "newCount")
			b[14], b[15] = byte(v>>8), byte(v)
		case 1:
			pos := rapid.IntRange(20, len(b)-1).Draw(t, "pos")
			b[pos] ^= byte(rapid.IntRange(1, 255).Draw(t, "x"))
		case 2: // drop the tail and fix the length field
			words := rapid.IntRange(5, len(b)/4).Draw(t, "words")
			b = b[:4*words]
			b[2], b[3] = byte((words-1)>>8), byte(words-1)
			b[0] &^= 0x20
		default:
		}

		return b, "twcc-edited-bytes"
	case 3: // RFC 8888: wrapped ranges, zero-length reports, huge blocks
		rep := &rtcp.CCFeedbackReport{SenderSSRC: 1, ReportTimestamp: rapid.Uint32().Draw(t, "ts")}
		for i, n := 0, rapid.IntRange(0, 3).Draw(t, "blocks"); i < n; i++ {
			blk := rtcp.CCFeedbackReportBlock{MediaSSRC: rapid.SampledFrom([]uint32{0x6001, 0x6001, 5}).Draw(t, "ssrc"), BeginSequence: rapid.SampledFrom([]uint16{0, 3, 65530, 65535}).Draw(t, "begin")}
			cnt := rapid.SampledFrom([]int{0, 1, 3, 20, 300}).Draw(t, "cnt")
			for k := 0; k < cnt; k++ {
				blk.MetricBlocks = append(blk.MetricBlocks, rtcp.CCFeedbackMetricBlock{Received: k%3 != 0, ECN: rtcp.ECN(k % 4), ArrivalTimeOffset: uint16(k*37) & 0x1fff}) //nolint:gosec
			}
			rep.ReportBlocks = append(rep.ReportBlocks, blk)
		}
		b := marshal(rep)
		if rapid.IntRange(0, 2).Draw(t, "editNum") == 0 && len(b) >= 20 {
			v := rapid.SampledFrom([]int{0, 1, 16384, 0xffff}).Draw(t, "numReports") // num_reports of the first block
			b[14], b[15] = byte(v>>8), byte(v)
		}

		return b, "ccfb"
	case 4: // NACK with pathological pairs
		var pairs []rtcp.NackPair
		for i, n := 0, rapid.IntRange(0, 30).Draw(t, "pairs"); i < n; i++ {
			pairs = append(pairs, rtcp.NackPair{PacketID: rapid.Uint16().Draw(t, "pid"), LostPackets: rtcp.PacketBitmap(rapid.SampledFrom([]uint16{0, 0xffff, 0x8001}).Draw(t, "blp"))})
		}

		return marshal(&rtcp.TransportLayerNack{SenderSSRC: 1, MediaSSRC: rapid.SampledFrom([]uint32{0x6001, 9}).Draw(t, "ssrc"), Nacks: pairs}), "nack"
	case 5: // SR / RR / XR with odd contents, then truncated
		xr := &rtcp.ExtendedReport{SenderSSRC: 1, Reports: []rtcp.ReportBlock{
			&rtcp.DLRRReportBlock{Reports: []rtcp.DLRRReport{{SSRC: 0x7001, LastRR: rapid.Uint32().Draw(t, "lrr"), DLRR: rapid.Uint32().Draw(t, "dlrr")}}},
			&rtcp.ReceiverReferenceTimeReportBlock{NTPTimestamp: rapid.Uint64().Draw(t, "ntp")}}}
		sr := &rtcp.SenderReport{SSRC: 0x7001, NTPTime: rapid.Uint64().Draw(t, "ntp2"), RTPTime: 1, Reports: []rtcp.ReceptionReport{{SSRC: 0x6001, LastSequenceNumber: rapid.Uint32().Draw(t, "ext"),
			TotalLost: 0xffffff, Jitter: 0xffffffff, LastSenderReport: rapid.Uint32().Draw(t, "lsr"), Delay: rapid.Uint32().Draw(t, "dlsr")}}}
		b := marshal(sr, xr, &rtcp.FullIntraRequest{SenderSSRC: 1, MediaSSRC: 0, FIR: []rtcp.FIREntry{{SSRC: 0x6001}}})
		if rapid.Bool().Draw(t, "truncate") {
			b = b[:rapid.IntRange(0, len(b)).Draw(t, "cut")]
		}

		return b, "reports"
	case 6: // valid compound with random bit flips
		b := marshal(&rtcp.ReceiverReport{SSRC: 1, Reports: []rtcp.ReceptionReport{{SSRC: 0x6001}}}, &rtcp.TransportLayerNack{SenderSSRC: 1, MediaSSRC: 0x6001, Nacks: []rtcp.NackPair{{PacketID: 1, LostPackets: 3}}},
			&rtcp.PictureLossIndication{SenderSSRC: 1, MediaSSRC: 0x6001})
		for i, n := 0, rapid.IntRange(1, 6).Draw(t, "flips"); i < n; i++ {
			b[rapid.IntRange(0, len(b)-1).Draw(t, "pos")] ^= 1 << rapid.IntRange(0, 7).Draw(t, "bit")
		}

		return b, "bitflips"
	case 7: // header-only feedback packets of every format with length fields that lie
		fmtv := rapid.IntRange(0, 31).Draw(t, "fmt")
		pt := rapid.SampledFrom([]int{200, 201, 204, 205, 206, 207}).Draw(t, "pt")
		words := rapid.IntRange(0, 6).Draw(t, "words")
		b := make([]byte, 4+4*words)
		b[0], b[1] = 0x80|byte(fmtv), byte(pt)
		claimed := rapid.SampledFrom([]int{words, words, 0, words + 1, 0xffff}).Draw(t, "claimed")
		b[2], b[3] = byte(claimed>>8), byte(claimed)
		for i := 4; i < len(b); i++ {
			b[i] = byte(rapid.IntRange(0, 255).Draw(t, "b"))
		}

		return b, "lying-length"
	default:
		return rapid.SliceOfN(rapid.Byte(), 0, 80).Draw(t, "raw"), "raw"
	}
}

func genCase(t *rapid.T) (*Case, []string) {
	c := &Case{Member: rapid.SampledFrom(members).Draw(t, "member"), History: rapid.IntRange(0, 8).Draw(t, "history"), Dirty: byte(rapid.SampledFrom([]int{0, 0xA5, 0xFF}).Draw(t, "dirty"))}
	var classes []string
	if c.Member == "chain-jb" {
		c.Order = rapid.Uint64Range(1, 1<<62).Draw(t, "order")
		c.History = rapid.IntRange(50, 70).Draw(t, "jbHistory") // the buffer is emitting when the generated packets arrive
		classes = append(classes, "chain-around-jitterbuffer")
	}
	if c.Member == "chain" && rapid.Bool().Draw(t, "shuffled") {
		c.Order = rapid.Uint64Range(1, 1<<62).Draw(t, "order")
		classes = append(classes, "shuffled-chain")
	}
	if c.Member == "jitterbuffer" && rapid.Bool().Draw(t, "longHistory") {
		c.History = rapid.IntRange(50, 70).Draw(t, "jbHistory") // enough for the buffer to start emitting
	}
	if rapid.IntRange(0, 3).Draw(t, "shortBuf") == 0 {
		// the caller reads with a short buffer (the datagram is truncated, a buffering member has larger packets queued)
		c.ReadBuf = 1 + rapid.SampledFrom([]int{0, 1, 4, 11, 12, 13, 16, 20, 23, 24, 40, 64, 200}).Draw(t, "readBuf")
		classes = append(classes, "short-read-buffer")
		c.SpareCap = rapid.Bool().Draw(t, "spareCap")
	}
	switch rapid.IntRange(0, 2).Draw(t, "kind") {
	case 0:
		c.Kind = "rtp-in"
		for i, n := 0, rapid.IntRange(1, 4).Draw(t, "n"); i < n; i++ {
			if c.ReadBuf > 0 && rapid.Bool().Draw(t, "plainSmall") {
				// a well-formed header-only packet: what matters in this case is the caller's short buffer, not the bytes
				b, _ := (&rtp.Packet{Header: rtp.Header{Version: 2, SSRC: 0x7001, PayloadType: 96, SequenceNumber: uint16(1000 + i), Timestamp: 1}}).Marshal() //nolint:gosec
				c.Inputs = append(c.Inputs, b)

				continue
			}
			c.Inputs = append(c.Inputs, genRTPIn(t))
		}
	case 1:
		c.Kind = "rtcp-in"
		for i, n := 0, rapid.IntRange(1, 3).Draw(t, "n"); i < n; i++ {
			raw, cl := genRTCPIn(t)
			c.Inputs = append(c.Inputs, raw)
			classes = append(classes, cl)
		}
	default:
		c.Kind = "rtp-out"
		h := kit.GenHeader(t, "h", kit.HeaderShape{})
		h.SequenceNumber = rapid.Uint16().Draw(t, "seq")
		if rapid.Bool().Draw(t, "twcc") && h.ExtensionProfile != rtp.ExtensionProfileTwoByte {
			h = kit.WithTWCC(h, twccID, rapid.Uint16().Draw(t, "tw"))
		}
		c.OutHeader, _ = h.Marshal()
		c.OutPadding = h.PaddingSize
		sizeGen := rapid.OneOf(rapid.SampledFrom([]int{0, 1459, 1460, 1461, 1500, 2000, 65535}), rapid.IntRange(1380, 1620), rapid.IntRange(0, 65535))
		c.OutPayload = sizeGen.Draw(t, "payload")
		for i, n := 0, rapid.IntRange(0, 5).Draw(t, "more"); i < n; i++ {
			c.OutMore = append(c.OutMore, rapid.OneOf(sizeGen, rapid.Just(c.OutPayload), rapid.IntRange(0, 200)).Draw(t, "payloadMore"))
		}
		// listed known finding: the pacing interceptor (here 500 Mbit/s, 1 ms: bucket of 500 000 bits) accepts a packet
		// its bucket can never hold and then blocks everything behind it; excluded by construction, counted
		if c.Member == "pacing" && kit.Known("C02-pacing-oversize-blocks-queue") {
			if 8*(c.OutPayload+len(c.OutHeader)) >= 500_000 {
				classes = append(classes, "excluded:C02-pacing-oversize-blocks-queue")
				c.OutPayload = 60_000
			}
			for i := range c.OutMore {
				if 8*(c.OutMore[i]+len(c.OutHeader)) >= 500_000 {
					classes = append(classes, "excluded:C02-pacing-oversize-blocks-queue")
					c.OutMore[i] = 60_000
				}
			}
		}
	}

	return c, classes
}

// reachesLogic: does the hostile input get past the first parser (so that it reaches interceptor logic)?
func reachesLogic(c *Case) (parsed, inconsistent bool) {
	switch c.Kind {
	case "rtp-in":
		for _, in := range c.Inputs {
			var h rtp.Header
			if _, err := h.Unmarshal(in); err == nil {
				parsed = true
			}
		}
	case "rtcp-in":
		for _, in := range c.Inputs {
			pkts, err := rtcp.Unmarshal(in)
			if err != nil {
				continue
			}
			parsed = true
			for _, p := range pkts {
				if fb, ok := p.(*rtcp.TransportLayerCC); ok {
					syms := 0
					for _, ch := range fb.PacketChunks {
						switch v := ch.(type) {
						case *rtcp.RunLengthChunk:
							syms += int(v.RunLength)
						case *rtcp.StatusVectorChunk:
							syms += len(v.SymbolList)
						}
					}
					if syms != int(fb.PacketStatusCount) {
						inconsistent = true
					}
				}
				if rep, ok := p.(*rtcp.CCFeedbackReport); ok {
					for _, b := range rep.ReportBlocks {
						if int(b.BeginSequence)+len(b.MetricBlocks) > 65536 || len(b.MetricBlocks) == 0 {
							inconsistent = true
						}
					}
				}
			}
		}
	default:
		parsed = true
		inconsistent = c.OutPayload > 1460
	}

	return parsed, inconsistent
}

func TestHostileInputs(t *testing.T) {
	if rp := kit.ReplayFile(); rp != "" {
		var c Case
		b, _ := os.ReadFile(rp)
		if err := json.Unmarshal(b, &c); err != nil {
			t.Fatalf("replay file: %v", err)
		}
		if v := execute(&c); v != "" {
			t.Fatalf("%s", v)
		}

		return
	}
	rec := kit.NewRecorder("C02", "hostile-inputs",
		"per interceptor and for an all-interceptor chain: a well-formed prior history, then hostile input - incoming RTP bytes (valid, truncated at every boundary, bit flips, lying "+
			"extension/padding lengths), incoming RTCP bytes (TWCC with run length > status count / fewer deltas than symbols / edited bytes, RFC 8888 wrapped and zero-length blocks, "+
			"pathological NACK/SR/XR, lying length fields, raw) or an outgoing packet with payload 0..65535 - then well-formed probe traffic; non-trivial = the input passes the first parser; distinct by case bytes")
	rapid.Check(t, func(t *rapid.T) {
		c, classes := genCase(t)
		j, _ := json.Marshal(c)
		kit.Journal("TestHostileInputs", j)
		if v := execute(c); v != "" {
			t.Fatalf("%s", v)
		}
		for _, cl := range classes {
			if cl == "excluded:C02-pacing-oversize-blocks-queue" {
				rec.Excluded("C02-pacing-oversize-blocks-queue")
			}
		}
		parsed, inconsistent := reachesLogic(c)
		classes = append(classes, c.Kind, "member="+c.Member)
		if inconsistent {
			classes = append(classes, "parses-but-inconsistent")
		}
		rec.Case(kit.NewH().B(j).Sum(), parsed, classes, func() any {
			return map[string]any{"member": c.Member, "kind": c.Kind, "history": c.History, "inputs_hex": fmt.Sprintf("%x", c.Inputs), "out_payload": c.OutPayload}
		})
	})
}
