package c12

import (
	"encoding/json"
	"errors"
	"fmt"
	"os"
	"runtime"
	"runtime/pprof"
	"strings"
	"sync/atomic"
	"testing"
	"time"

	"github.com/pion/interceptor"
	"github.com/pion/interceptor/verifharness/kit"
	"github.com/pion/rtcp"
	"github.com/pion/rtp"
)

const (
	twccID   = 5
	interval = time.Millisecond
)

var workloads = []string{"in-order", "loss", "duplicates", "reordering", "with-feedback", "loss-with-feedback", "retransmissions-lagging-ccfb", "many-streams", "stream-churn", "failing-transport", "app-rtcp", "feedback-clock-crawls"}

const manyStreams = 120 // further local and remote streams of the "many-streams" workload: memory may depend on their number, not on the packets

// Pair is one (interceptor, workload) measurement; JSON doubles as replay file.
type Pair struct {
	Member   string `json:"member"`
	Workload string `json:"workload"`
	Phases   int    `json:"phases"`
	PerPhase int    `json:"per_phase"`
	Seed     uint64 `json:"seed"`
}

// countingRTP / countingRTCP are the transports; with failEvery > 0 every failEvery-th write is refused (workload "failing-transport").
type countingRTP struct {
	n         atomic.Int64
	failEvery int64
}

var errTransport = errors.New("injected transport error")

func (c *countingRTP) Write(*rtp.Header, []byte, interceptor.Attributes) (int, error) {
	if n := c.n.Add(1); c.failEvery > 0 && n%c.failEvery == 0 {
		return 0, errTransport
	}

	return 1, nil
}

type countingRTCP struct {
	n         atomic.Int64
	failEvery int64
}

func (c *countingRTCP) Write([]rtcp.Packet, interceptor.Attributes) (int, error) {
	if n := c.n.Add(1); c.failEvery > 0 && n%c.failEvery == 0 {
		return 0, errTransport
	}

	return 1, nil
}

type heap struct {
	alloc   uint64
	objects uint64
}

// measure returns the retained heap: the minimum over five collections a millisecond apart. The interceptor's ticker goroutines keep
// allocating while we measure (121 reports per tick in the many-streams workload); what they have in flight at one instant is noise
// that only ever adds, so the minimum is the better estimate of what is retained.
func measure() heap {
	best := heap{alloc: ^uint64(0), objects: ^uint64(0)}
	for i := 0; i < 5; i++ {
		runtime.GC()
		runtime.GC()
		var ms runtime.MemStats
		runtime.ReadMemStats(&ms)
		best.alloc = min(best.alloc, ms.HeapAlloc)
		best.objects = min(best.objects, ms.HeapObjects)
		time.Sleep(time.Millisecond)
	}

	return best
}

type result struct {
	Pair      Pair     `json:"pair"`
	Baseline  uint64   `json:"baseline_bytes"`
	Phases    []uint64 `json:"heap_after_phase_bytes"`
	Objects   []uint64 `json:"objects_after_phase"`
	AfterStop uint64   `json:"heap_after_close_bytes"`
	Verdict   string   `json:"verdict"`
	Skipped   string   `json:"skipped,omitempty"`
}

// runPair executes one pair and judges the growth between its last phases.
func runPair(p Pair) result { //nolint:cyclop,gocognit
	res := result{Pair: p}
	idle := kit.Idle() // goroutines of the idle process: what the interceptor starts must be gone again after Close
	base := measure()
	res.Baseline = base.alloc
	m := kit.NewMember(p.Member, interval)
	ic, err := m.Factory.NewInterceptor("c12")
	if err != nil {
		res.Verdict = "harness: " + err.Error()

		return res
	}
	rtcpSink := &countingRTCP{}
	if p.Workload == "failing-transport" {
		rtcpSink.failEvery = 7
	}
	rtcpOut := ic.BindRTCPWriter(rtcpSink)
	rtcpSrc := &kit.ByteSource{}
	rtcpIn := ic.BindRTCPReader(rtcpSrc)
	rtpSink := &countingRTP{}
	if p.Workload == "failing-transport" {
		rtpSink.failEvery = 53 // co-prime with the batch and burst sizes in use, so that over time every position of a batch is hit
	}
	ccfb := p.Workload == "retransmissions-lagging-ccfb" || p.Workload == "feedback-clock-crawls" // no transport-cc negotiated: RFC 8888 feedback keyed by (SSRC, sequence number), no RTX
	tw := twccID
	if ccfb {
		tw = 0
	}
	linfo := kit.LocalInfo(0x6001, tw, !ccfb, true)
	w := ic.BindLocalStream(linfo, rtpSink)
	rinfo := kit.RemoteInfo(0x7001, tw)
	src := &kit.ByteSource{}
	r := ic.BindRemoteStream(rinfo, src)
	// "many-streams": 120 more streams each way, packets round-robin over all of them
	type extraStream struct {
		w        interceptor.RTPWriter
		src      *kit.ByteSource
		r        interceptor.RTPReader
		out, in_ uint16
	}
	var extras []*extraStream
	if p.Workload == "many-streams" {
		for i := 0; i < manyStreams; i++ {
			e := &extraStream{src: &kit.ByteSource{}}
			e.w = ic.BindLocalStream(kit.LocalInfo(uint32(0x16000+i), tw, true, true), rtpSink) //nolint:gosec
			e.r = ic.BindRemoteStream(kit.RemoteInfo(uint32(0x17000+i), tw), e.src)             //nolint:gosec
			extras = append(extras, e)
		}
	}
	rr := 0
	x := p.Seed | 1
	next := func() uint64 {
		x ^= x << 13
		x ^= x >> 7
		x ^= x << 17

		return x
	}
	var seqOut, seqIn, twOut, twIn uint16
	buf := make([]byte, 1500)
	payload := make([]byte, 100)
	rawBuf := make([]byte, 200)
	sendOne := func(seq uint16) {
		twOut++
		h := rtp.Header{Version: 2, SSRC: 0x6001, PayloadType: 96, SequenceNumber: seq, Timestamp: uint32(seq) * 90}
		wr := w
		if len(extras) > 0 {
			if k := rr % (manyStreams + 1); k > 0 {
				e := extras[k-1]
				e.out++
				h.SSRC, h.SequenceNumber, h.Timestamp = uint32(0x16000+k-1), e.out, uint32(e.out)*90 //nolint:gosec
				wr = e.w
			}
		}
		if !ccfb {
			h = kit.WithTWCC(h, twccID, twOut)
		}
		_, _ = wr.Write(&h, payload, nil)
	}
	recvOne := func(seq uint16) {
		twIn++
		h := rtp.Header{Version: 2, SSRC: 0x7001, PayloadType: 96, SequenceNumber: seq, Timestamp: uint32(seq) * 90}
		from, rd := src, r
		if len(extras) > 0 {
			if k := rr % (manyStreams + 1); k > 0 {
				e := extras[k-1]
				e.in_++
				h.SSRC, h.SequenceNumber, h.Timestamp = uint32(0x17000+k-1), e.in_, uint32(e.in_)*90 //nolint:gosec
				from, rd = e.src, e.r
			}
			rr++
		}
		if !ccfb {
			h = kit.WithTWCC(h, twccID, twIn)
		}
		n, err := (&rtp.Packet{Header: h, Payload: payload[:20]}).MarshalTo(rawBuf)
		if err != nil {
			return
		}
		from.Push(rawBuf[:n])
		_, _, _ = rd.Read(buf, nil)
	}
	// the receiver's report timestamps follow the wall clock, as a receiver's do; in the workload "feedback-clock-crawls" they advance by
	// 0.6 ms per 40 packets only (a receiver whose clock all but stands still), which is the input of the listed finding about arrival groups
	reportTS := func(k int) uint32 {
		if p.Workload == "feedback-clock-crawls" {
			return uint32(k) //nolint:gosec
		}
		now := time.Now()

		return uint32(uint64(now.Unix()+2208988800)&0xffff)<<16 | uint32(uint64(now.Nanosecond())*65536/1_000_000_000) //nolint:gosec
	}
	// arrival offsets: the packets of one feedback were sent within a fraction of a millisecond here, so a truthful receiver reports them
	// as arrived within the report's own millisecond (offset 0); the crawling-clock workload keeps the 1/1024 s steps that spread them
	// over 39 ms of receiver time
	ato := func(back int) uint16 {
		if p.Workload == "feedback-clock-crawls" {
			return uint16(back) //nolint:gosec
		}

		return 0
	}
	feedback := func(k int) {
		n := 40
		fb := &rtcp.TransportLayerCC{SenderSSRC: 9, MediaSSRC: 0x6001, BaseSequenceNumber: twOut - uint16(n) + 1, PacketStatusCount: uint16(n), ReferenceTime: uint32(k/40 + 1), FbPktCount: uint8(k), // (arrival times move forward from one feedback to the next, as a receiver's clock does) //nolint:gosec
			PacketChunks: []rtcp.PacketStatusChunk{&rtcp.RunLengthChunk{PacketStatusSymbol: rtcp.TypeTCCPacketReceivedSmallDelta, RunLength: uint16(n)}}} //nolint:gosec
		for i := 0; i < n; i++ {
			fb.RecvDeltas = append(fb.RecvDeltas, &rtcp.RecvDelta{Type: rtcp.TypeTCCPacketReceivedSmallDelta, Delta: 250})
		}
		size := 20 + 2 + n
		fb.Header = rtcp.Header{Count: rtcp.FormatTCC, Type: rtcp.TypeTransportSpecificFeedback, Padding: size%4 != 0, Length: uint16((size+3)/4 - 1)} //nolint:gosec
		lag := uint16(0)
		if ccfb {
			lag = 100 // the feedback trails the sender
		}
		blk := rtcp.CCFeedbackReportBlock{MediaSSRC: 0x6001, BeginSequence: seqOut - lag - uint16(n) + 1} //nolint:gosec
		for i := 0; i < n; i++ {
			blk.MetricBlocks = append(blk.MetricBlocks, rtcp.CCFeedbackMetricBlock{Received: i%10 != 3, ArrivalTimeOffset: ato(n - i)})
		}
		pkts := []rtcp.Packet{
			&rtcp.ReceiverReport{SSRC: 9, Reports: []rtcp.ReceptionReport{{SSRC: 0x6001, LastSequenceNumber: uint32(seqOut), LastSenderReport: uint32(k), Delay: 5}}}, //nolint:gosec
			fb, &rtcp.CCFeedbackReport{SenderSSRC: 9, ReportTimestamp: reportTS(k), ReportBlocks: []rtcp.CCFeedbackReportBlock{blk}},
			&rtcp.TransportLayerNack{SenderSSRC: 9, MediaSSRC: 0x6001, Nacks: []rtcp.NackPair{{PacketID: seqOut - 3, LostPackets: 1}}},
		}
		raw, err := rtcp.Marshal(pkts)
		if err != nil {
			return
		}
		rtcpSrc.Push(raw)
		_, _, _ = rtcpIn.Read(buf, nil)
		// and the application's own RTCP on its way out: reports, an XR with two receiver reference time blocks, feedback about the remote stream
		_, _ = rtcpOut.Write([]rtcp.Packet{
			&rtcp.ReceiverReport{SSRC: 9, Reports: []rtcp.ReceptionReport{{SSRC: 0x7001, LastSequenceNumber: uint32(seqIn)}}},
			&rtcp.ExtendedReport{SenderSSRC: 9, Reports: []rtcp.ReportBlock{
				&rtcp.ReceiverReferenceTimeReportBlock{NTPTimestamp: uint64(k) << 20}, &rtcp.ReceiverReferenceTimeReportBlock{NTPTimestamp: uint64(k)<<20 + 1}, //nolint:gosec
			}},
			&rtcp.PictureLossIndication{SenderSSRC: 9, MediaSSRC: 0x7001},
			&rtcp.TransportLayerNack{SenderSSRC: 9, MediaSSRC: 0x7001, Nacks: []rtcp.NackPair{{PacketID: seqIn - 2}}},
		}, nil)
	}
	withFeedback := p.Workload == "with-feedback" || p.Workload == "feedback-clock-crawls" || p.Workload == "loss-with-feedback" || p.Workload == "failing-transport" || ccfb
	lossy := p.Workload == "loss" || p.Workload == "loss-with-feedback"
	sentTotal := int64(0)
	churnSSRC := uint32(0x100000)
	churnEvery := kit.EnvInt("VERIF_C12_CHURN_EVERY", 1000) // a batch of 100 short-lived stream pairs every so many packets
	for ph := 0; ph < p.Phases; ph++ {
		for i := 0; i < p.PerPhase; i++ {
			if p.Workload == "stream-churn" && i%churnEvery == 0 {
				// a batch of 50 (thorough: 100) short-lived pairs of streams with SSRCs never used before: bound together, 4 packets each way with a gap and
				// feedback about them while report / NACK ticks run over all of them, then unbound one after the other while ticks go on.
				// Memory may depend on the streams bound at the moment, not on how many have come and gone.
				type churned struct {
					li, ri *interceptor.StreamInfo
					w      interceptor.RTPWriter
					r      interceptor.RTPReader
					src    *kit.ByteSource
				}
				batch := make([]*churned, kit.EnvInt("VERIF_C12_CHURN_BATCH", 50))
				for j := range batch {
					churnSSRC += 2
					c := &churned{li: kit.LocalInfo(churnSSRC, tw, true, true), ri: kit.RemoteInfo(churnSSRC+1, tw), src: &kit.ByteSource{}}
					c.w, c.r = ic.BindLocalStream(c.li, rtpSink), ic.BindRemoteStream(c.ri, c.src)
					batch[j] = c
				}
				for k := uint16(1); k <= 5; k++ {
					if k == 3 {
						continue
					}
					for _, c := range batch {
						twOut++
						twIn++
						ho := kit.WithTWCC(rtp.Header{Version: 2, SSRC: c.li.SSRC, PayloadType: 96, SequenceNumber: k, Timestamp: uint32(k) * 90}, twccID, twOut)
						_, _ = c.w.Write(&ho, payload, nil)
						hi := kit.WithTWCC(rtp.Header{Version: 2, SSRC: c.ri.SSRC, PayloadType: 96, SequenceNumber: k, Timestamp: uint32(k) * 90}, twccID, twIn)
						if n, err := (&rtp.Packet{Header: hi, Payload: payload[:20]}).MarshalTo(rawBuf); err == nil {
							c.src.Push(rawBuf[:n])
							_, _, _ = c.r.Read(buf, nil)
						}
						sentTotal++
					}
				}
				for _, c := range batch {
					if raw, err := rtcp.Marshal([]rtcp.Packet{
						&rtcp.ReceiverReport{SSRC: 9, Reports: []rtcp.ReceptionReport{{SSRC: c.li.SSRC, LastSequenceNumber: 5}}},
						&rtcp.SenderReport{SSRC: c.ri.SSRC, NTPTime: uint64(i) << 32, RTPTime: 1},
						&rtcp.TransportLayerNack{SenderSSRC: 9, MediaSSRC: c.li.SSRC, Nacks: []rtcp.NackPair{{PacketID: 3}}},
					}); err == nil {
						rtcpSrc.Push(raw)
						_, _, _ = rtcpIn.Read(buf, nil)
					}
				}
				time.Sleep(2 * interval) // all of them live through a tick or two
				for j, c := range batch {
					if j%2 == 1 { // the caller kept only the SSRC: it is what identifies the stream
						ic.UnbindLocalStream(&interceptor.StreamInfo{SSRC: c.li.SSRC})
						ic.UnbindRemoteStream(&interceptor.StreamInfo{SSRC: c.ri.SSRC})

						continue
					}
					ic.UnbindLocalStream(c.li)
					ic.UnbindRemoteStream(c.ri)
				}
				// the far end's last words about streams that are gone already: a sender report of the remote stream, a receiver report and a
				// NACK about the local one
				for _, c := range batch {
					if raw, err := rtcp.Marshal([]rtcp.Packet{
						&rtcp.SenderReport{SSRC: c.ri.SSRC, NTPTime: uint64(i+1) << 32, RTPTime: 2},
						&rtcp.ReceiverReport{SSRC: 9, Reports: []rtcp.ReceptionReport{{SSRC: c.li.SSRC, LastSequenceNumber: 5}}},
						&rtcp.TransportLayerNack{SenderSSRC: 9, MediaSSRC: c.li.SSRC, Nacks: []rtcp.NackPair{{PacketID: 4}}},
					}); err == nil {
						rtcpSrc.Push(raw)
						_, _, _ = rtcpIn.Read(buf, nil)
					}
				}
			}
			seqOut++
			seqIn++
			roll := next() % 100
			switch {
			case lossy && roll < 5:
				// lost in both directions
			case p.Workload == "duplicates" && roll < 5:
				sendOne(seqOut)
				sendOne(seqOut)
				recvOne(seqIn)
				recvOne(seqIn)
				sentTotal += 2
			case p.Workload == "reordering" && roll < 5:
				sendOne(seqOut + 1)
				sendOne(seqOut)
				recvOne(seqIn + 1)
				recvOne(seqIn)
				seqOut++
				seqIn++
				sentTotal += 2
			case ccfb && roll < 10 && i > 40:
				// a retransmission of an earlier number on the media SSRC (NACK answered without RTX), then the next packet
				sendOne(seqOut - 30)
				sendOne(seqOut)
				recvOne(seqIn)
				sentTotal += 2
			default:
				sendOne(seqOut)
				recvOne(seqIn)
				sentTotal++
			}
			if withFeedback && i%40 == 39 || p.Workload == "app-rtcp" && i%2 == 1 {
				feedback(ph*p.PerPhase + i)
			}
			if i%100 == 99 {
				time.Sleep(interval) // a realistic packet-to-tick ratio: at most ~100 packets per report interval
			}
		}
		// phase boundary: pacers drain, tickers run, then measure
		if m.Async {
			if !kit.Eventually(30*time.Second, func() bool { return rtpSink.n.Load() >= sentTotal }) {
				res.Skipped = fmt.Sprintf("pacer backlog did not drain within 30 s (%d of %d delivered)", rtpSink.n.Load(), sentTotal)
				_ = ic.Close()

				return res
			}
		}
		time.Sleep(6 * interval)
		hp := measure()
		res.Phases = append(res.Phases, hp.alloc)
		res.Objects = append(res.Objects, hp.objects)
	}
	// a per-packet leak grows in every phase: both of the last two phase-to-phase steps must exceed the tolerance
	// (bytes and objects) before the pair is judged to grow; a single noisy step is not enough
	n := len(res.Phases)
	growing := n >= 3
	var steps []string
	for k := n - 2; k < n && growing; k++ {
		grow := int64(res.Phases[k]) - int64(res.Phases[k-1])      //nolint:gosec
		growObj := int64(res.Objects[k]) - int64(res.Objects[k-1]) //nolint:gosec
		tol := int64(32 << 10)
		if t := int64(res.Phases[k-1] / 200); t > tol { //nolint:gosec
			tol = t
		}
		// many small objects (a map entry or list node per packet), or - judged only once more than 2^16 packets lie behind, because maps keyed
		// by 16-bit numbers legitimately fill up until then (rtpfb: 450 KB per 15000 packets, flat from 75000 on) - one object that keeps growing
		// (not for the cc members: the estimator keeps acknowledgements of the last half second of wall-clock time, so what it retains
		// follows the speed of the run - 11..15 MB in steps of megabytes were seen; their one growing list is the listed finding below)
		bytesAlone := (k-1)*p.PerPhase >= 70000 && grow > 4*tol && !strings.HasPrefix(p.Member, "cc-")
		if !(grow > tol && growObj > 200) && !bytesAlone {
			growing = false
		}
		steps = append(steps, fmt.Sprintf("+%d bytes / +%d objects", grow, growObj))
	}
	if growing {
		res.Verdict = fmt.Sprintf("retained memory grows with the number of packets: the last two of %d equal phases (%d packets each) added %v (heap after each phase: %v)",
			p.Phases, p.PerPhase, steps, res.Phases)
	}
	if f := os.Getenv("VERIF_C12_HEAPPROFILE"); f != "" { // diagnosis of a replayed pair: what is retained after the last phase
		runtime.GC()
		if fh, err := os.Create(f); err == nil {
			_ = pprof.Lookup("heap").WriteTo(fh, 0)
			_ = fh.Close()
		}
	}
	ic.UnbindLocalStream(linfo)
	ic.UnbindRemoteStream(rinfo)
	_ = ic.Close()
	w, r, rtcpIn, ic = nil, nil, nil, nil
	m = kit.Member{}
	time.Sleep(2 * interval)
	after := measure()
	res.AfterStop = after.alloc
	if left := kit.WaitGoroutines(idle, 2*time.Second); res.Verdict == "" && left > idle {
		res.Verdict = fmt.Sprintf("%d goroutines started by the interceptor are still alive 2 s after Unbind/Close: what they reference is not collectable", left-idle)
	}
	if res.Verdict == "" && int64(after.alloc)-int64(base.alloc) > 256<<10 && int64(after.objects)-int64(base.objects) > 2000 { //nolint:gosec
		res.Verdict = fmt.Sprintf("memory is not released after Unbind/Close: baseline %d bytes, after Close %d bytes (+%d objects)", base.alloc, after.alloc, int64(after.objects)-int64(base.objects)) //nolint:gosec
	}

	return res
}

// feedsBack reports whether the workload delivers transport-cc / RFC 8888 feedback about the packets sent.
func feedsBack(w string) bool {
	switch w {
	case "with-feedback", "loss-with-feedback", "retransmissions-lagging-ccfb", "failing-transport", "app-rtcp", "feedback-clock-crawls":
		return true
	}

	return false
}

// knownFor returns the id of a listed known finding that explains growth of this pair, if any.
func knownFor(p Pair) string {
	switch {
	case p.Member == "rtpfb" && !feedsBack(p.Workload):
		return "C12-rtpfb-history-without-feedback"
	case p.Member == "rfc8888" && p.Workload == "stream-churn":
		return "C12-rfc8888-state-survives-unbind"
	case strings.HasPrefix(p.Member, "cc-") && p.Workload == "feedback-clock-crawls":
		return "C12-gcc-arrival-group-unbounded"
	case strings.HasPrefix(p.Member, "cc-") && p.Workload == "stream-churn":
		return "C12-cc-pacer-streams-kept-until-close"
	case p.Member == "stats" && p.Workload == "stream-churn":
		return "C12-stats-recorders-kept-until-close"
	case p.Member == "jitterbuffer" && p.Workload == "many-streams":
		return "C12-jitterbuffer-queue-grows-after-loss" // one buffer for all streams: every other stream's packet is a stale duplicate for it (DESIGN 8.2, observation d)
	case p.Member == "jitterbuffer" && (p.Workload == "loss" || p.Workload == "loss-with-feedback" || p.Workload == "duplicates" || p.Workload == "reordering"):
		return "C12-jitterbuffer-queue-grows-after-loss"
	}

	return ""
}

func TestMemoryBounded(t *testing.T) {
	if rp := kit.ReplayFile(); rp != "" {
		var p Pair
		b, _ := os.ReadFile(rp)
		if err := json.Unmarshal(b, &p); err != nil {
			t.Fatalf("replay file: %v", err)
		}
		res := runPair(p)
		t.Logf("%s / %s: heap after each phase %v, objects %v, after Close %d, skipped %q", p.Member, p.Workload, res.Phases, res.Objects, res.AfterStop, res.Skipped)
		if res.Verdict != "" {
			t.Fatalf("%s / %s: %s", p.Member, p.Workload, res.Verdict)
		}

		return
	}
	phases, per := kit.EnvInt("VERIF_C12_PHASES", 4), kit.EnvInt("VERIF_C12_PER_PHASE", 15000)
	shard, nshards := kit.Shard()
	rec := kit.NewRecorder("C12", "memory-phases",
		fmt.Sprintf("every interceptor x workload {in-order, 5%% loss, 5%% duplicates, reordering, with periodic feedback, loss with feedback, retransmissions with lagging RFC 8888 feedback, 121 streams each way, 50 short-lived stream pairs bound, used and unbound every 1000 packets (thorough: 100 every 5000), RTP / RTCP transports that refuse every 53rd / 7th write, application RTCP in both directions with every second packet, RFC 8888 feedback whose report clock crawls}: %d equal phases of %d packets each way; heap and object "+
			"count after two forced GCs at each phase boundary; growth over each of the last two phases must stay below max(32 KiB, 0.5%%) with 200 objects, or (once more than 2^16 packets lie behind) 4 x that in bytes alone, and the heap must return to the baseline after Unbind/Close; "+
			"non-trivial = the interceptor keeps per-packet state; distinct by (interceptor, workload, seed)", phases, per))
	idx := 0
	for _, member := range kit.AllNames {
		for _, wl := range workloads {
			idx++
			if idx%nshards != shard {
				continue
			}
			p := Pair{Member: member, Workload: wl, Phases: phases, PerPhase: per, Seed: kit.Seed()*7919 + uint64(idx)} //nolint:gosec
			if knownFor(p) != "" && p.PerPhase > 15000 {
				// a pair that grows by a listed finding is only re-confirmed, at the quick size: the jitter buffer's queue makes every push
				// linear in what it has retained, so long phases would spend the whole budget on it
				p.PerPhase = 15000
			}
			res := runPair(p)
			stateful := member != "noop" && member != "twcc-header-extension" && member != "packetdump-sender" && member != "packetdump-receiver" && member != "intervalpli" && !strings.HasSuffix(member, "-custom")
			rec.Case(kit.NewH().S(member).S(wl).U(p.Seed).Sum(), stateful && res.Skipped == "", []string{"member=" + member, "workload=" + wl}, func() any { return res })
			if res.Skipped != "" {
				rec.Class("inconclusive-pairs", 1)

				continue
			}
			if res.Verdict == "" {
				continue
			}
			if id := knownFor(p); id != "" && kit.Known(id) {
				rec.KnownHit(id)

				continue
			}
			b, _ := json.Marshal(p)
			kit.WriteReplay("TestMemoryBounded", b)
			t.Errorf("%s / %s: %s", member, wl, res.Verdict)
		}
	}
}

// TestKnownArrivalGroupGrows reproduces the listed finding C12-gcc-arrival-group-unbounded on its exact input: RFC 8888 feedback whose report
// clock crawls keeps one arrival group open, and the estimator's retained heap grows by more than 100 KB per 100000 acknowledged packets.
func TestKnownArrivalGroupGrows(t *testing.T) {
	rec := kit.NewRecorder("C12", "known-arrival-group", "fixed reproduction: cc interceptor with a NoOp pacer, 4 phases of 100000 packets, RFC 8888 feedback every 40 packets whose report timestamp advances by 40/65536 s")
	res := runPair(Pair{Member: "cc-noop-pacer", Workload: "feedback-clock-crawls", Phases: 4, PerPhase: 100000, Seed: 7})
	rec.Case(1, true, nil, func() any { return res })
	rec.Case(2, true, nil, nil)
	n := len(res.Phases)
	if n < 4 || res.Skipped != "" {
		t.Skipf("inconclusive: %q", res.Skipped)
	}
	grows := int64(res.Phases[n-1])-int64(res.Phases[n-2]) > 100<<10 && int64(res.Phases[n-2])-int64(res.Phases[n-3]) > 100<<10 //nolint:gosec
	if !grows {
		return // the finding no longer shows: nothing to report
	}
	if kit.Known("C12-gcc-arrival-group-unbounded") {
		rec.KnownHit("C12-gcc-arrival-group-unbounded")

		return
	}
	b, _ := json.Marshal(res.Pair)
	kit.WriteReplay("TestMemoryBounded", b)
	t.Fatalf("cc-noop-pacer / feedback-clock-crawls: retained heap grows by more than 100 KB per 100000 acknowledged packets: %v", res.Phases)
}
