package c12

import (
	"testing"

	"github.com/pion/interceptor/verifharness/kit"
)

func TestMain(m *testing.M) { kit.Main(m) }
