package c20

import (
	"testing"
	"time"

	"github.com/pion/interceptor/internal/ntp"
	"github.com/pion/interceptor/verifharness/kit"
	"pgregory.net/rapid"
)

// NTP era 0 ends 2036-02-07 06:28:16 UTC = 2^32 s after 1900.
// The conversion works in float64 seconds (resolution 2^-21 s at these magnitudes), so the last microsecond
// before the era rollover rounds up to 2^32 s: the domain ends 1 us before it (stated in the assumptions).
const maxUnixNano = (int64(1)<<32-2208988800)*1_000_000_000 - 1 - 1000

// genInstant draws unix nanoseconds in [0, maxUnixNano-slack] with bias to second boundaries and 2^k ns.
func genInstant(slack int64) *rapid.Generator[int64] {
	hi := maxUnixNano - slack

	return rapid.Custom(func(t *rapid.T) int64 {
		var v int64
		switch rapid.IntRange(0, 4).Draw(t, "kind") {
		case 0:
			v = rapid.Int64Range(0, hi).Draw(t, "ns")
		case 1: // around a second boundary
			v = rapid.Int64Range(0, hi/1_000_000_000).Draw(t, "sec")*1_000_000_000 + rapid.Int64Range(-1500, 1500).Draw(t, "off")
		case 2: // around 2^k ns
			v = int64(1)<<rapid.IntRange(0, 60).Draw(t, "k") + rapid.Int64Range(-2, 2).Draw(t, "off")
		case 3: // around a 2^16-second NTP window boundary
			w := rapid.Int64Range(33707, 65535).Draw(t, "win") // NTP seconds / 65536 since 1970
			v = (w*65536-2208988800)*1_000_000_000 + rapid.Int64Range(-2_000_000_000, 2_000_000_000).Draw(t, "off")
		default: // the edges of the domain
			v = rapid.SampledFrom([]int64{0, 1, 999_999_999, 1_000_000_000, hi, hi - 1, hi - 1_000_000_000}).Draw(t, "edge")
		}
		if v < 0 {
			v = 0
		}
		if v > hi {
			v = hi
		}

		return v
	})
}

func straddlesSecond(a, b int64) bool { return a/1_000_000_000 != b/1_000_000_000 }

func TestNTPMonotone(t *testing.T) {
	rec := kit.NewRecorder("C20", "ntp-monotone",
		"pairs of instants 1970..2036 closer than 1 ms (and sorted random pairs); non-trivial = the pair straddles a second boundary or differs by < 1 us")
	rapid.Check(t, func(t *rapid.T) {
		a := genInstant(2_000_000).Draw(t, "a")
		var b int64
		if rapid.Bool().Draw(t, "close") {
			b = a + rapid.OneOf(rapid.Int64Range(0, 999_999), rapid.Int64Range(0, 600), rapid.Just(int64(1))).Draw(t, "d")
		} else {
			b = genInstant(0).Draw(t, "b")
			if b < a {
				a, b = b, a
			}
		}
		na, nb := ntp.ToNTP(time.Unix(0, a)), ntp.ToNTP(time.Unix(0, b))
		if na > nb {
			t.Fatalf("ToNTP not monotone: t1=%dns -> %#x, t2=%dns (later by %dns) -> %#x", a, na, b, b-a, nb)
		}
		rec.Case(kit.NewH().U(uint64(a), uint64(b)).Sum(), straddlesSecond(a, b) || b-a < 1000, nil, func() any {
			return map[string]any{"t1_unix_ns": a, "t2_unix_ns": b, "ntp1": na, "ntp2": nb}
		})
	})
}

func TestNTPRoundTrip(t *testing.T) {
	rec := kit.NewRecorder("C20", "ntp-roundtrip",
		"instants 1970..2036 at ns granularity with boundary bias; non-trivial = within 1.5 us of a second boundary or of 2^k ns")
	rapid.Check(t, func(t *rapid.T) {
		a := genInstant(0).Draw(t, "a")
		back := ntp.ToTime(ntp.ToNTP(time.Unix(0, a)))
		d := back.Sub(time.Unix(0, a))
		if d < -time.Microsecond || d > time.Microsecond {
			t.Fatalf("ToTime(ToNTP(%dns)) is off by %v", a, d)
		}
		m := a % 1_000_000_000
		near := m < 1500 || m > 1_000_000_000-1500 || (a&(a-1)) == 0 || ((a+2)&(a+1)) == 0
		rec.Case(uint64(a), near, nil, func() any { return map[string]any{"unix_ns": a, "error_ns": int64(d)} })
	})
}

func TestNTP32RoundTrip(t *testing.T) {
	rec := kit.NewRecorder("C20", "ntp32-roundtrip",
		"instant + reference in the same 2^16-second NTP window; non-trivial = reference and instant at least 1 h apart, or instant within 2 s of a window edge")
	rapid.Check(t, func(t *rapid.T) {
		a := genInstant(0).Draw(t, "a")
		ntpSec := a/1_000_000_000 + 2208988800
		winStart := (ntpSec/65536*65536 - 2208988800) * 1_000_000_000
		winEnd := winStart + 65536*1_000_000_000 - 1
		// instants closer than 1 us to a window edge belong to either window within the stated 1 us
		// accuracy of the conversion; keep both the instant and the reference 1 us inside the window
		winStart += 1000
		winEnd -= 1000
		if winStart < 0 {
			winStart = 0
		}
		if winEnd > maxUnixNano {
			winEnd = maxUnixNano
		}
		if a < winStart {
			a = winStart
		}
		if a > winEnd {
			a = winEnd
		}
		ref := rapid.OneOf(rapid.Int64Range(winStart, winEnd), rapid.Just(winStart), rapid.Just(winEnd), rapid.Just(a)).Draw(t, "ref")
		back := ntp.ToTime32(ntp.ToNTP32(time.Unix(0, a)), time.Unix(0, ref))
		d := back.Sub(time.Unix(0, a))
		tol := time.Second/65536 + time.Microsecond + 1
		if d < -tol || d > tol {
			t.Fatalf("ToTime32(ToNTP32(%dns), ref=%dns) is off by %v (tolerance %v)", a, ref, d, tol)
		}
		far := ref-a > 3600e9 || a-ref > 3600e9 || a-winStart < 2e9 || winEnd-a < 2e9
		rec.Case(kit.NewH().U(uint64(a), uint64(ref)).Sum(), far, nil, func() any {
			return map[string]any{"unix_ns": a, "reference_unix_ns": ref, "error_ns": int64(d)}
		})
	})
}
