package c20

import (
	"encoding/json"
	"fmt"
	"os"
	"testing"

	"github.com/pion/interceptor/internal/sequencenumber"
	"github.com/pion/interceptor/verifharness/kit"
	"pgregory.net/rapid"
)

const (
	mod  = int64(65536)
	half = int64(32768)
)

// stateAt drives a fresh Unwrapper through the API to previous result s (s >= 0) and returns it by value.
func stateAt(s int64) sequencenumber.Unwrapper {
	var u sequencenumber.Unwrapper
	cur := s % mod // first call returns its input
	if got := u.Unwrap(uint16(cur)); got != cur {
		panic(fmt.Sprintf("first Unwrap(%d) returned %d", cur, got))
	}
	for cur < s {
		step := min(s-cur, 16384) // 65536 is a multiple of the step, so s is hit exactly
		cur += step
		u.Unwrap(uint16(cur % mod))
	}

	return u
}

// checkPair is the oracle for one (previous result, input) pair. It returns "" or a description.
// Statement: result non-negative, congruent to x mod 2^16, within 2^15 of the previous result; the
// documented floor at zero applies when no non-negative congruent value lies within 2^15 (then the
// result is x itself). At distance exactly 2^15 either direction is accepted.
func checkPair(s int64, x uint16, r int64) string {
	if r < 0 {
		return "negative result"
	}
	if r%mod != int64(x) {
		return "result not congruent to the input modulo 2^16"
	}
	d := r - s
	if d < 0 {
		d = -d
	}
	if d <= half {
		return ""
	}
	// is there any admissible value? the congruent values nearest to s are s+e-65536 / s+e / s+e+65536
	e := (int64(x) - s%mod + mod) % mod // 0..65535 forward distance
	if e <= half {
		return "result further than 2^15 from the previous result although s+e is admissible"
	}
	if s+e-mod >= 0 {
		return "result further than 2^15 from the previous result although the backward value is admissible"
	}
	if r != int64(x) {
		return "floor at zero: expected the input itself"
	}

	return ""
}

type pairReplay struct {
	S int64  `json:"previous"`
	X uint16 `json:"input"`
}

// TestUnwrapPairsExhaustive enumerates every (previous result, input) pair for all previous results of this
// shard's slice of [0, VERIF_C20_STATES) and every 16-bit input.
func TestUnwrapPairsExhaustive(t *testing.T) {
	if rp := kit.ReplayFile(); rp != "" {
		var p pairReplay
		b, _ := os.ReadFile(rp)
		if json.Unmarshal(b, &p) != nil {
			t.Skip("not a pair replay")
		}
		u := stateAt(p.S)
		r := u.Unwrap(p.X)
		if msg := checkPair(p.S, p.X, r); msg != "" {
			t.Fatalf("previous=%d input=%d result=%d: %s", p.S, p.X, r, msg)
		}

		return
	}
	states := int64(kit.EnvInt("VERIF_C20_STATES", 1<<17))
	shard, n := kit.Shard()
	rec := kit.NewRecorder("C20", "unwrap-pairs-exhaustive",
		fmt.Sprintf("every (previous result S, input x) with S < %d reached through the API and every 16-bit x; "+
			"non-trivial = |x - S mod 2^16| within 2 of the 2^15 breakpoint, or the floor-at-zero case; distinct by (S,x)", states))
	var evals int
	var keys []uint64
	for s := int64(shard); s < states; s += int64(n) {
		base := stateAt(s)
		for xi := 0; xi < 65536; xi++ {
			x := uint16(xi)
			u := base
			r := u.Unwrap(x)
			evals++
			if msg := checkPair(s, x, r); msg != "" {
				b, _ := json.Marshal(pairReplay{S: s, X: x})
				kit.WriteReplay("TestUnwrapPairsExhaustive", b)
				t.Fatalf("previous=%d input=%d result=%d: %s", s, x, r, msg)
			}
			// a second identical call must be a fixed point (same number again)
			if r2 := u.Unwrap(x); r2 != r {
				b, _ := json.Marshal(pairReplay{S: s, X: x})
				kit.WriteReplay("TestUnwrapPairsExhaustive", b)
				t.Fatalf("previous=%d input=%d: repeated input moved the result %d -> %d", s, x, r, r2)
			}
		}
		for _, off := range []int64{half - 2, half - 1, half, half + 1, half + 2} {
			x := uint16((s + off) % mod)
			keys = append(keys, uint64(s)<<16|uint64(x))
		}
	}
	rec.AddBulk(evals, keys)
	rec.AddSample(map[string]any{"previous": states - 1, "input": uint16((states - 1 + half) % mod), "note": "one of the enumerated breakpoint pairs"})
	rec.AddSample(map[string]any{"previous": 5, "input": 65535, "note": "floor-at-zero pair (result must be the input itself)"})
	rec.SetExhaustive()
	rec.Set("states_enumerated_below", states)
}

// TestUnwrapLargeStates samples previous results far above 2^17 (reached through the API) against every input.
func TestUnwrapLargeStates(t *testing.T) {
	rec := kit.NewRecorder("C20", "unwrap-large-states",
		"random previous results up to 2^35 (biased to multiples of 2^15 +-2 and to multiples of 2^32 +-70000) x all 65536 inputs; non-trivial = state within 2 of a multiple of 2^15 or within 70000 of a multiple of 2^32")
	rapid.Check(t, func(t *rapid.T) {
		k := rapid.Int64Range(0, 1<<16).Draw(t, "k")
		off := rapid.Int64Range(-3, 3).Draw(t, "off")
		// also far beyond 2^31: around whole multiples of 2^32 (65536 wrap-arounds, where a wrap count kept in 16 bits or a 32-bit
		// intermediate comes back to zero) and anywhere up to 2^35
		k32 := rapid.Int64Range(1, 8).Draw(t, "k32")
		off32 := rapid.OneOf(rapid.Int64Range(-70000, 70000), rapid.SampledFrom([]int64{-65536, -65535, -32769, -32768, -32767, -1, 0, 1, 32767, 32768, 65535, 65536})).Draw(t, "off32")
		s := rapid.OneOf(rapid.Just(k*half+off), rapid.Int64Range(0, 1<<31), rapid.Just(k32<<32+off32), rapid.Just(k32<<32+off32), rapid.Int64Range(1<<31, 1<<35)).Draw(t, "s")
		if s < 0 {
			s = 0
		}
		base := stateAt(s)
		for xi := 0; xi < 65536; xi++ {
			u := base
			r := u.Unwrap(uint16(xi))
			if msg := checkPair(s, uint16(xi), r); msg != "" {
				t.Fatalf("previous=%d input=%d result=%d: %s", s, xi, r, msg)
			}
		}
		m := s % half
		m32 := s % (1 << 32)
		rec.Case(uint64(s), m <= 2 || m >= half-2 || (s > 1<<31 && (m32 <= 70000 || m32 >= 1<<32-70000)), []string{"state", fmt.Sprintf("beyond-2^31=%v", s > 1<<31)}, func() any { return map[string]any{"previous": s, "inputs": "all 65536"} })
	})
}

// TestUnwrapReconstructsStream: any stream whose consecutive true values differ by less than 2^15 is
// reconstructed exactly (relative to the first value, whose low 16 bits are what the unwrapper sees).
func TestUnwrapReconstructsStream(t *testing.T) {
	rec := kit.NewRecorder("C20", "unwrap-stream",
		"random 64-bit true-value streams with |step| < 2^15 (biased to +-32767, 0, +-1) that never go below zero; "+
			"non-trivial = stream crosses a multiple of 2^16 in both directions or contains a +-32767 step")
	rapid.Check(t, func(t *rapid.T) {
		start := rapid.OneOf(rapid.Int64Range(0, 70000), rapid.Int64Range(0, 1<<40)).Draw(t, "start")
		n := rapid.IntRange(1, 200).Draw(t, "n")
		stepGen := rapid.OneOf(
			rapid.SampledFrom([]int64{-32767, -32766, -1, 0, 1, 32766, 32767}),
			rapid.Int64Range(-32767, 32767), rapid.Int64Range(-3, 3))
		var u sequencenumber.Unwrapper
		true0 := start
		r0 := u.Unwrap(uint16(start % mod))
		if r0 != start%mod {
			t.Fatalf("first result %d for input %d", r0, start%mod)
		}
		cur := start
		floor := start - start%mod // results are relative: result = true - floor; must stay >= 0
		h := kit.NewH().U(uint64(start))
		big, up, down := false, false, false
		for i := 0; i < n; i++ {
			st := stepGen.Draw(t, "step")
			if cur+st < floor {
				st = -st
			}
			if st > 32767 {
				st = 32767
			}
			next := cur + st
			if next/mod > cur/mod {
				up = true
			}
			if next/mod < cur/mod {
				down = true
			}
			if st == 32767 || st == -32767 {
				big = true
			}
			cur = next
			h.U(uint64(st))
			r := u.Unwrap(uint16(cur % mod))
			if r-r0 != cur-true0 {
				t.Fatalf("step %d: true value %d (start %d) reconstructed as %d (first result %d)", i, cur, true0, r, r0)
			}
		}
		rec.Case(h.Sum(), (up && down) || big, []string{fmt.Sprintf("len<=%d", (n/50+1)*50)}, func() any {
			return map[string]any{"start": start, "steps": n, "final_true_value": cur}
		})
	})
}
