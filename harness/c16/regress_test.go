package c16

import (
	"testing"
	"time"

	"github.com/pion/interceptor"
	"github.com/pion/interceptor/pkg/gcc"
	"github.com/pion/interceptor/verifharness/kit"
	"github.com/pion/rtcp"
	"github.com/pion/rtp"
)

// TestRegressTargetNotBelowConfiguredMinimum: min = initial = max = 150 kbit/s, half of every feedback lost.
func TestRegressTargetNotBelowConfiguredMinimum(t *testing.T) {
	spy := &spyPacer{writers: map[uint32]interceptor.RTPWriter{}}
	bwe, err := gcc.NewSendSideBWE(gcc.SendSideBWEMinBitrate(150_000), gcc.SendSideBWEInitialBitrate(150_000), gcc.SendSideBWEMaxBitrate(150_000), gcc.SendSideBWEPacer(spy))
	if err != nil {
		t.Fatal(err)
	}
	defer kit.BoundedClose(bwe.Close)
	w := bwe.AddStream(&interceptor.StreamInfo{SSRC: 1, RTPHeaderExtensions: []interceptor.RTPHeaderExtension{{URI: transportCCURI, ID: extID}}}, &kit.RTPSink{})
	twcc := uint16(0)
	for round := 0; round < 4; round++ {
		base := twcc
		fb := &rtcp.TransportLayerCC{BaseSequenceNumber: base, ReferenceTime: uint32(10 + round), //nolint:gosec
			PacketChunks: []rtcp.PacketStatusChunk{}}
		var syms []uint16
		for g := 0; g < 8; g++ {
			hdr := rtp.Header{Version: 2, SSRC: 1, SequenceNumber: twcc}
			ext, _ := (rtp.TransportCCExtension{TransportSequence: twcc}).Marshal()
			_ = hdr.SetExtension(extID, ext)
			_, _ = w.Write(&hdr, make([]byte, 1200), nil)
			if g%2 == 0 {
				syms = append(syms, rtcp.TypeTCCPacketReceivedSmallDelta)
				fb.RecvDeltas = append(fb.RecvDeltas, &rtcp.RecvDelta{Type: rtcp.TypeTCCPacketReceivedSmallDelta, Delta: 6000})
			} else {
				syms = append(syms, rtcp.TypeTCCPacketNotReceived)
			}
			twcc++
			time.Sleep(6 * time.Millisecond)
		}
		fb.PacketStatusCount = 8
		fb.PacketChunks = append(fb.PacketChunks, &rtcp.StatusVectorChunk{SymbolSize: rtcp.TypeTCCSymbolSizeTwoBit, SymbolList: syms[:7]},
			&rtcp.StatusVectorChunk{SymbolSize: rtcp.TypeTCCSymbolSizeTwoBit, SymbolList: append(syms[7:], 0, 0, 0, 0, 0, 0)})
		if err := bwe.WriteRTCP([]rtcp.Packet{fb}, nil); err != nil {
			t.Fatal(err)
		}
		_ = bwe.WriteRTCP([]rtcp.Packet{&rtcp.CCFeedbackReport{ReportTimestamp: 1}}, nil)
		_ = bwe.WriteRTCP([]rtcp.Packet{&rtcp.CCFeedbackReport{ReportTimestamp: 1}}, nil)
		if got := bwe.GetTargetBitrate(); got < 150_000 {
			kit.WriteReplay("TestRegressTargetNotBelowConfiguredMinimum", []byte(`{"min":150000,"initial":150000,"max":150000,"feedback":"every second packet lost"}`))
			t.Fatalf("round %d: target bitrate %d below the configured minimum 150000", round, got)
		}
	}
}
