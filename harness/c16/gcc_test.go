package c16

import (
	"errors"
	"fmt"
	"math"
	"sort"
	"sync"
	"testing"
	"time"

	"github.com/pion/interceptor"
	"github.com/pion/interceptor/pkg/gcc"
	"github.com/pion/interceptor/verifharness/kit"
	"github.com/pion/rtcp"
	"github.com/pion/rtp"
	"pgregory.net/rapid"
)

const (
	transportCCURI = "http://www.ietf.org/id/draft-holmer-rmcat-transport-wide-cc-extensions-01"
	extID          = 3
)

// spyPacer forwards synchronously (like the NoOp pacer) and records every rate it is told.
type spyPacer struct {
	mu       sync.Mutex
	writers  map[uint32]interceptor.RTPWriter
	rates    []int
	closeErr error
}

func (p *spyPacer) Write(h *rtp.Header, payload []byte, a interceptor.Attributes) (int, error) {
	p.mu.Lock()
	w := p.writers[h.SSRC]
	p.mu.Unlock()
	if w == nil {
		return 0, errors.New("unknown stream")
	}

	return w.Write(h, payload, a)
}

func (p *spyPacer) AddStream(ssrc uint32, w interceptor.RTPWriter) {
	p.mu.Lock()
	p.writers[ssrc] = w
	p.mu.Unlock()
}

func (p *spyPacer) SetTargetBitrate(r int) {
	p.mu.Lock()
	p.rates = append(p.rates, r)
	p.mu.Unlock()
}

// Close can be made to fail: the estimator is closed all the same.
func (p *spyPacer) Close() error { return p.closeErr }

func (p *spyPacer) snapshot() []int {
	p.mu.Lock()
	defer p.mu.Unlock()

	return append([]int(nil), p.rates...)
}

func TestTargetBitrateBounded(t *testing.T) {
	rec := kit.NewRecorder("C16", "send-side-bwe",
		"gcc.NewSendSideBWE with (min <= initial <= max) from 5 kbit/s to 1 Gbit/s (incl. min = initial, min > 100 kbit/s), spy / NoOp / leaky-bucket pacer; rounds of real-time spaced sends "+
			"followed by TWCC or RFC 8888 feedback built from arbitrary arrival patterns (zero, equal and decreasing arrivals, huge gaps, 0..100 % loss, duplicated and empty feedback); "+
			"invariants checked at quiescence after every feedback; non-trivial = a published change, or a zero inter-arrival / 100 % loss feedback; distinct by configuration and history")
	rapid.Check(t, func(t *rapid.T) {
		kit.Idle()
		levels := []int{1_000, 3_000, 5_000, 20_000, 100_000, 150_000, 1_000_000, 5_000_000, 50_000_000, 1_000_000_000} // (the built-in defaults are 5 kbit/s .. 50 Mbit/s: values on both sides of them)
		if rapid.IntRange(0, 5).Draw(t, "belowDefaults") == 0 {
			levels = []int{1_000, 2_000, 3_000, 4_000, 4_900} // the whole configuration below the built-in minimum of 5 kbit/s
		}
		a := rapid.IntRange(0, len(levels)-1).Draw(t, "minIdx")
		b := rapid.IntRange(a, len(levels)-1).Draw(t, "initIdx")
		c := rapid.IntRange(b, len(levels)-1).Draw(t, "maxIdx")
		minR, initR, maxR := levels[a], levels[b], levels[c]
		pacerKind := rapid.SampledFrom([]string{"spy", "spy", "noop", "leaky"}).Draw(t, "pacer")
		spy := &spyPacer{writers: map[uint32]interceptor.RTPWriter{}}
		if rapid.IntRange(0, 2).Draw(t, "pacerCloseFails") == 0 {
			spy.closeErr = errors.New("injected pacer close error")
		}
		opts := []gcc.Option{gcc.SendSideBWEMinBitrate(minR), gcc.SendSideBWEInitialBitrate(initR), gcc.SendSideBWEMaxBitrate(maxR)}
		switch pacerKind {
		case "spy":
			opts = append(opts, gcc.SendSideBWEPacer(spy))
		case "noop":
			opts = append(opts, gcc.SendSideBWEPacer(gcc.NewNoOpPacer()))
		}
		// options are applied in the order given: the configuration that results must not depend on it
		opts = rapid.Permutation(opts).Draw(t, "optionOrder")
		base := kit.StableGoroutines()
		bwe, err := gcc.NewSendSideBWE(opts...)
		if err != nil {
			t.Fatalf("NewSendSideBWE(min %d, initial %d, max %d): %v", minR, initR, maxR, err)
		}
		var cbMu sync.Mutex
		var callbacks []int
		type seenInCallback struct{ given, getter int }
		var seen []seenInCallback
		var bweRef *gcc.SendSideBWE
		reenter := rapid.Bool().Draw(t, "callbackReadsEstimator")
		bwe.OnTargetBitrateChange(func(r int) {
			got := -1
			if reenter { // an application's callback may look at the estimator it was called by
				got = bweRef.GetTargetBitrate()
				_ = bweRef.GetStats()
			}
			cbMu.Lock()
			callbacks = append(callbacks, r)
			if reenter {
				seen = append(seen, seenInCallback{r, got})
			}
			cbMu.Unlock()
		})
		bweRef = bwe
		sink := &kit.RTPSink{}
		w := bwe.AddStream(&interceptor.StreamInfo{SSRC: 1, RTPHeaderExtensions: []interceptor.RTPHeaderExtension{{URI: transportCCURI, ID: extID}}}, sink)
		running := kit.StableGoroutines() // with the estimator's goroutines (and the leaky bucket's) running
		closed := false
		defer func() {
			if !closed {
				kit.BoundedClose(bwe.Close)
			}
		}()
		// an observer that polls the estimator all the time (a statistics collector): legal concurrency that contends for its locks
		stopPoll := make(chan struct{})
		var pollWG sync.WaitGroup
		if rapid.Bool().Draw(t, "poller") {
			running++ // one more goroutine that stays for the whole case
			pollWG.Add(1)
			go func() {
				defer pollWG.Done()
				for {
					select {
					case <-stopPoll:
						return
					default:
						_ = bwe.GetStats()
						_ = bwe.GetTargetBitrate()
					}
				}
			}()
		}
		defer func() {
			select {
			case <-stopPoll:
			default:
				close(stopPoll)
			}
			pollWG.Wait()
		}()
		where := fmt.Sprintf("min %d initial %d max %d pacer %s", minR, initR, maxR, pacerKind)
		twccSeq := kit.U16Boundary().Draw(t, "twccStart")
		rtpSeq := uint16(0)
		h := kit.NewH().I(minR, initR, maxR).S(pacerKind)
		classes := map[string]bool{}
		interesting := false
		writeRTCP := func(pkts []rtcp.Packet, what string) {
			var werr error
			if o := kit.Guard(0, func() { werr = bwe.WriteRTCP(pkts, nil) }); !o.OK() {
				t.Fatalf("%s: WriteRTCP(%s): %s", where, what, o)
			}
			if werr != nil {
				t.Fatalf("%s: WriteRTCP(%s) on an open estimator failed: %v", where, what, werr)
			}
		}
		checkInvariants := func(after string) {
			// sentinel: an empty feedback is only accepted once the previous batch has been consumed by both pipes
			writeRTCP([]rtcp.Packet{&rtcp.CCFeedbackReport{ReportTimestamp: 1}}, "empty sentinel")
			writeRTCP([]rtcp.Packet{&rtcp.CCFeedbackReport{ReportTimestamp: 1}}, "empty sentinel")
			if left := kit.WaitGoroutines(running, 10*time.Second); left > running {
				t.Fatalf("%s: callback goroutines still running 10 s after %s", where, after)
			}
			got := bwe.GetTargetBitrate()
			if got < minR || got > maxR || got <= 0 {
				t.Fatalf("%s: after %s GetTargetBitrate() = %d, outside [%d, %d]", where, after, got, minR, maxR)
			}
			cbMu.Lock()
			cbs := append([]int(nil), callbacks...)
			cbMu.Unlock()
			for _, v := range cbs {
				if v < minR || v > maxR || v <= 0 {
					t.Fatalf("%s: after %s the change callback was given %d, outside [%d, %d]", where, after, v, minR, maxR)
				}
			}
			if pacerKind == "spy" {
				rates := spy.snapshot()
				for _, v := range rates {
					if v < minR || v > maxR || v <= 0 {
						t.Fatalf("%s: after %s the pacer was told %d, outside [%d, %d]", where, after, v, minR, maxR)
					}
				}
				if len(rates) > 0 && rates[len(rates)-1] != got {
					t.Fatalf("%s: after %s the pacer was last told %d but GetTargetBitrate() = %d", where, after, rates[len(rates)-1], got)
				}
				x, y := append([]int(nil), rates...), append([]int(nil), cbs...)
				sort.Ints(x)
				sort.Ints(y)
				if fmt.Sprint(x) != fmt.Sprint(y) {
					t.Fatalf("%s: after %s the pacer was told %v, the change callback %v (as multisets they must agree)", where, after, rates, cbs)
				}
				// what the getter returned inside a callback is the value the callback was given, or one published after it (the pacer is told
				// synchronously, so its list is the order of publication)
				cbMu.Lock()
				sn := append([]seenInCallback(nil), seen...)
				cbMu.Unlock()
				for _, sc := range sn {
					ok := false
					for i, r := range rates {
						if r != sc.given {
							continue
						}
						for _, later := range rates[i:] {
							ok = ok || later == sc.getter
						}
					}
					if !ok {
						t.Fatalf("%s: after %s: a change callback was given %d, and GetTargetBitrate() called inside it returned %d, which is neither that value nor one published after it (publication order %v)",
							where, after, sc.given, sc.getter, rates)
					}
				}
			}
			if len(cbs) > 0 {
				interesting = true
				classes["published-change"] = true
			}
			stats := bwe.GetStats()
			classes[fmt.Sprintf("delay-state-%v", stats["state"])] = true
			classes[fmt.Sprintf("delay-usage-%v", stats["usage"])] = true
			for k, v := range stats {
				if f, ok := v.(float64); ok && (math.IsNaN(f) || math.IsInf(f, 0)) {
					t.Fatalf("%s: after %s GetStats()[%q] = %v", where, after, k, f)
				}
				if n, ok := v.(int); ok && k == "lossTargetBitrate" && n < 0 {
					t.Fatalf("%s: after %s GetStats()[%q] = %d", where, after, k, n)
				}
			}
		}
		rounds := rapid.IntRange(1, 6).Draw(t, "rounds")
		for r := 0; r < rounds; r++ {
			// arrival pattern (drawn first: "draining" and "filling" also shape the departures)
			pattern := rapid.SampledFrom([]string{"paced", "paced", "compressed", "draining", "draining", "filling", "stretched", "zero-interarrival", "equal", "decreasing", "huge-gaps", "all-lost", "half-lost", "random"}).Draw(t, "pattern")
			groups := rapid.OneOf(rapid.IntRange(1, 6), rapid.IntRange(6, 16)).Draw(t, "groups")
			// A sustained delay gradient is only seen by the detector when both departures and arrivals are more than the 5 ms
			// burst time apart (closer arrivals with a negative variation are merged into one group) and it lasts for enough groups:
			// one packet per group, departures ~14 ms apart, arrivals 6 ms (draining queue: underuse -> Hold) or 30 ms (filling queue: overuse -> Decrease) apart.
			sustained := pattern == "draining" || pattern == "filling"
			if sustained {
				groups = rapid.IntRange(14, 34).Draw(t, "sustainedGroups")
			}
			type sentRec struct{ twcc uint16 }
			var sent []sentRec
			for g := 0; g < groups; g++ {
				burst := 1
				if !sustained {
					burst = rapid.IntRange(1, 3).Draw(t, "burst")
				}
				for k := 0; k < burst; k++ {
					hdr := rtp.Header{Version: 2, SSRC: 1, SequenceNumber: rtpSeq}
					rtpSeq++
					ext, _ := (rtp.TransportCCExtension{TransportSequence: twccSeq}).Marshal()
					_ = hdr.SetExtension(extID, ext)
					size := rapid.SampledFrom([]int{0, 100, 1200, 1460}).Draw(t, "size")
					if _, err := w.Write(&hdr, make([]byte, size), nil); err != nil {
						t.Fatalf("%s: Write: %v", where, err)
					}
					sent = append(sent, sentRec{twcc: twccSeq})
					twccSeq++
				}
				if sustained {
					time.Sleep(14 * time.Millisecond)
				} else if rapid.IntRange(0, 3).Draw(t, "spaced") != 0 {
					time.Sleep(6 * time.Millisecond) // departures more than 5 ms apart start a new arrival group
				}
			}
			if pacerKind == "leaky" { // packets are recorded as sent when the pacer releases them
				if !kit.Eventually(5*time.Second, func() bool { return sink.Len() >= int(rtpSeq) }) {
					t.Skipf("inconclusive: leaky bucket pacer did not drain in 5 s")
				}
			}
			classes[pattern] = true
			if pattern == "zero-interarrival" || pattern == "all-lost" {
				interesting = true
			}
			spec := kit.TWCCSpec{Base: sent[0].twcc, RefTime: rapid.Uint32Range(1, 1<<20).Draw(t, "ref"), FbCount: uint8(r)} //nolint:gosec
			for i := range sent {
				st := kit.TWCCStatus{Received: true}
				switch pattern {
				case "paced":
					st.Delta250 = 24
				case "compressed": // arrivals closer together than departures: the delay gradient is negative (underuse)
					st.Delta250 = 8
				case "stretched": // arrivals further apart than departures (overuse)
					st.Delta250 = 60
				case "draining":
					st.Delta250 = 24
				case "filling":
					st.Delta250 = 120
				case "zero-interarrival", "equal":
					st.Delta250 = 0
				case "decreasing":
					st.Delta250 = -int64(rapid.IntRange(0, 400).Draw(t, "neg"))
				case "huge-gaps":
					st.Delta250 = int64(rapid.SampledFrom([]int{0, 30000, 32767}).Draw(t, "huge"))
				case "all-lost":
					st.Received = false
				case "half-lost":
					st.Received = i%2 == 0
					st.Delta250 = 24
				default:
					st.Received = rapid.IntRange(0, 9).Draw(t, "rx") != 0
					st.Delta250 = int64(rapid.IntRange(-100, 2000).Draw(t, "d"))
				}
				if !st.Received {
					st.Delta250 = 0
				}
				spec.Statuses = append(spec.Statuses, st)
			}
			h.I(r, len(sent)).S(pattern)
			var fb rtcp.Packet
			if rapid.IntRange(0, 3).Draw(t, "ccfb") == 0 {
				// the same truth as an RFC 8888 report (this stream is TWCC-numbered, so the report names unknown packets:
				// still a well-formed feedback the estimator must survive)
				blk := rtcp.CCFeedbackReportBlock{MediaSSRC: 1, BeginSequence: rtpSeq - uint16(len(sent))} //nolint:gosec
				for _, st := range spec.Statuses {
					blk.MetricBlocks = append(blk.MetricBlocks, rtcp.CCFeedbackMetricBlock{Received: st.Received, ArrivalTimeOffset: uint16(rapid.IntRange(0, 0x1FFF).Draw(t, "ato"))}) //nolint:gosec
				}
				fb = &rtcp.CCFeedbackReport{SenderSSRC: 9, ReportTimestamp: rapid.Uint32().Draw(t, "rts"), ReportBlocks: []rtcp.CCFeedbackReportBlock{blk}}
				classes["rfc8888-feedback"] = true
			} else {
				fb = kit.EncodeTWCC(t, spec, 0)
			}
			pkts := []rtcp.Packet{fb}
			if rapid.IntRange(0, 5).Draw(t, "duplicate") == 0 {
				pkts = append(pkts, fb)
				classes["duplicated-feedback"] = true
			}
			if rapid.IntRange(0, 5).Draw(t, "withRR") == 0 {
				pkts = append([]rtcp.Packet{&rtcp.ReceiverReport{SSRC: 9}}, pkts...)
			}
			writeRTCP(pkts, pattern+" feedback")
			checkInvariants(fmt.Sprintf("round %d (%s feedback for %d packets)", r, pattern, len(sent)))
			if rapid.IntRange(0, 4).Draw(t, "pause") == 0 {
				time.Sleep(210 * time.Millisecond) // lets the loss-based estimator take another step
				classes["200ms-pause"] = true
			}
		}
		closed = true
		if o := kit.Guard(0, func() { _ = bwe.Close() }); !o.OK() {
			t.Fatalf("%s: Close: %s", where, o)
		}
		var werr error
		if o := kit.Guard(0, func() { werr = bwe.WriteRTCP([]rtcp.Packet{&rtcp.CCFeedbackReport{}}, nil) }); !o.OK() {
			t.Fatalf("%s: WriteRTCP after Close: %s", where, o)
		}
		if !errors.Is(werr, gcc.ErrSendSideBWEClosed) {
			t.Fatalf("%s: WriteRTCP after Close returned %v, want ErrSendSideBWEClosed (pacer Close error: %v)", where, werr, spy.closeErr)
		}
		// feedback with content, and a repeated Close, behave the same
		fbAfter := &rtcp.CCFeedbackReport{SenderSSRC: 9, ReportTimestamp: 7, ReportBlocks: []rtcp.CCFeedbackReportBlock{{MediaSSRC: 1, BeginSequence: 1,
			MetricBlocks: []rtcp.CCFeedbackMetricBlock{{Received: true, ArrivalTimeOffset: 1}}}}}
		if o := kit.Guard(0, func() { werr = bwe.WriteRTCP([]rtcp.Packet{fbAfter}, nil) }); !o.OK() {
			t.Fatalf("%s: WriteRTCP with a report after Close (pacer Close error: %v): %s", where, spy.closeErr, o)
		}
		if !errors.Is(werr, gcc.ErrSendSideBWEClosed) {
			t.Fatalf("%s: WriteRTCP with a report after Close returned %v, want ErrSendSideBWEClosed (pacer Close error: %v)", where, werr, spy.closeErr)
		}
		if o := kit.Guard(0, func() { _ = bwe.Close() }); !o.OK() {
			t.Fatalf("%s: second Close (pacer Close error: %v): %s", where, spy.closeErr, o)
		}
		_ = base
		var cl []string
		for c := range classes {
			cl = append(cl, c)
		}
		sort.Strings(cl)
		rec.Case(h.Sum(), interesting, cl, func() any {
			cbMu.Lock()
			defer cbMu.Unlock()

			return map[string]any{"min": minR, "initial": initR, "max": maxR, "pacer": pacerKind, "rounds": rounds, "published_targets": callbacks, "patterns": cl}
		})
	})
}
