package c16

import (
	"errors"
	"sync"
	"sync/atomic"
	"testing"
	"time"

	"github.com/pion/interceptor"
	"github.com/pion/interceptor/pkg/gcc"
	"github.com/pion/interceptor/verifharness/kit"
	"github.com/pion/rtcp"
	"github.com/pion/rtp"
	"pgregory.net/rapid"
)

// stallingPacer is a user-supplied pacer whose SetTargetBitrate takes long once it is armed (a slow consumer of rate changes).
type stallingPacer struct {
	spyPacer
	armed   atomic.Bool
	stall   time.Duration
	entered chan struct{}
	once    sync.Once
}

func (p *stallingPacer) SetTargetBitrate(r int) {
	p.spyPacer.SetTargetBitrate(r)
	if p.armed.Load() {
		p.once.Do(func() {
			close(p.entered)
			time.Sleep(p.stall)
		})
	}
}

// TestCloseDuringSlowCallout: the estimator is publishing a rate change to a slow pacer (or change callback) when Close is called.
// Close may take as long as the call-out, but it returns, and feeding feedback afterwards fails with ErrSendSideBWEClosed - no panic,
// no blocking; the published values stay within bounds.
func TestCloseDuringSlowCallout(t *testing.T) {
	rec := kit.NewRecorder("C16", "close-during-slow-callout",
		"SendSideBWE with a user pacer (or change callback) that stalls 0.3..1.6 s inside one rate-change call-out; lossy feedback rounds until that call-out is entered, "+
			"then Close from another goroutine, then feedback after Close; non-trivial = the call-out was entered and Close overlapped it; distinct by configuration")
	rapid.Check(t, func(t *rapid.T) {
		kit.Idle()
		stall := time.Duration(rapid.SampledFrom([]int{300, 1100, 1300, 1600}).Draw(t, "stallMs")) * time.Millisecond
		viaCallback := rapid.Bool().Draw(t, "viaCallback")
		minR := rapid.SampledFrom([]int{5_000, 150_000, 500_000}).Draw(t, "min")
		p := &stallingPacer{spyPacer: spyPacer{writers: map[uint32]interceptor.RTPWriter{}}, stall: stall, entered: make(chan struct{})}
		bwe, err := gcc.NewSendSideBWE(gcc.SendSideBWEMinBitrate(minR), gcc.SendSideBWEInitialBitrate(2_000_000), gcc.SendSideBWEMaxBitrate(50_000_000), gcc.SendSideBWEPacer(p))
		if err != nil {
			t.Fatalf("NewSendSideBWE: %v", err)
		}
		var cbOnce sync.Once
		var cbBad atomic.Int64
		bwe.OnTargetBitrateChange(func(r int) {
			if r < minR || r > 50_000_000 {
				cbBad.Store(int64(r))
			}
			if viaCallback && p.armed.Load() {
				cbOnce.Do(func() {
					close(p.entered)
					time.Sleep(stall)
				})
			}
		})
		if viaCallback {
			p.once.Do(func() {}) // the pacer itself never stalls in this variant
		}
		closedByTest := false
		defer func() {
			if !closedByTest {
				kit.BoundedClose(bwe.Close)
			}
		}()
		sink := &kit.RTPSink{}
		w := bwe.AddStream(&interceptor.StreamInfo{SSRC: 1, RTPHeaderExtensions: []interceptor.RTPHeaderExtension{{URI: transportCCURI, ID: extID}}}, sink)
		twcc := rapid.Uint16().Draw(t, "twccStart")
		p.armed.Store(true)
		// lossy rounds (every second packet lost) until the rate change reaches the stalling call-out
		entered := false
		for round := 0; round < 40 && !entered; round++ {
			base := twcc
			n := 10
			for i := 0; i < n; i++ {
				hdr := rtp.Header{Version: 2, SSRC: 1, SequenceNumber: twcc}
				ext, _ := (rtp.TransportCCExtension{TransportSequence: twcc}).Marshal()
				_ = hdr.SetExtension(extID, ext)
				if _, err := w.Write(&hdr, make([]byte, 1000), nil); err != nil {
					t.Fatalf("Write: %v", err)
				}
				twcc++
				time.Sleep(500 * time.Microsecond)
			}
			spec := kit.TWCCSpec{Base: base, RefTime: uint32(round + 1), FbCount: uint8(round)} //nolint:gosec
			for i := 0; i < n; i++ {
				spec.Statuses = append(spec.Statuses, kit.TWCCStatus{Received: i%2 == 0, Delta250: 8})
			}
			fb := kit.EncodeTWCC(t, spec, 0)
			// once the call-out is stalling, the pipeline behind it is busy: WriteRTCP may take as long as the stall, never longer
			if o := kit.Guard(0, func() { _ = bwe.WriteRTCP([]rtcp.Packet{fb}, nil) }); !o.OK() {
				t.Fatalf("WriteRTCP (round %d): %s", round, o)
			}
			select {
			case <-p.entered:
				entered = true
			case <-time.After(30 * time.Millisecond): // lets the loss-based estimator take its 200 ms steps over the rounds
			}
		}
		closeStart := time.Now()
		var cerr error
		closedByTest = true
		if o := kit.Guard(0, func() { cerr = bwe.Close() }); !o.OK() {
			t.Fatalf("Close while a rate change is being delivered to a slow call-out (stall %v, entered %v): %s", stall, entered, o)
		}
		closeTook := time.Since(closeStart)
		var werr error
		if o := kit.Guard(0, func() { werr = bwe.WriteRTCP([]rtcp.Packet{&rtcp.CCFeedbackReport{ReportTimestamp: 1}}, nil) }); !o.OK() {
			t.Fatalf("WriteRTCP after Close (Close had returned %v after %v; stall %v, call-out entered %v): %s", cerr, closeTook, stall, entered, o)
		}
		if !errors.Is(werr, gcc.ErrSendSideBWEClosed) {
			t.Fatalf("WriteRTCP after Close returned %v, want ErrSendSideBWEClosed (Close had returned %v after %v; stall %v, call-out entered %v)", werr, cerr, closeTook, stall, entered)
		}
		if v := cbBad.Load(); v != 0 {
			t.Fatalf("the change callback was given %d, outside [%d, 50000000]", v, minR)
		}
		for _, r := range p.snapshot() {
			if r < minR || r > 50_000_000 {
				t.Fatalf("the pacer was told %d, outside [%d, 50000000]", r, minR)
			}
		}
		cl := []string{"callout-not-reached"}
		if entered {
			cl = []string{"callout-entered"}
		}
		rec.Case(kit.NewH().I(int(stall), minR).U(uint64(twcc)).S(cl[0]).Sum(), entered, cl, func() any {
			return map[string]any{"stall_ms": stall.Milliseconds(), "via_callback": viaCallback, "min": minR, "close_took_ms": closeTook.Milliseconds(), "close_error": cerr != nil}
		})
	})
}
