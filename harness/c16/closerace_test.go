package c16

import (
	"errors"
	"runtime"
	"sync"
	"testing"
	"time"

	"github.com/pion/interceptor"
	"github.com/pion/interceptor/pkg/gcc"
	"github.com/pion/interceptor/verifharness/kit"
	"github.com/pion/rtcp"
	"github.com/pion/rtp"
	"pgregory.net/rapid"
)

// TestCloseRacesFeedback: many short-lived estimators, each fed feedback from one or two goroutines while Close arrives from another
// after a generated number of yields. Every WriteRTCP returns (nil or the closed error, no panic), Close returns, and afterwards
// feeding fails with the closed error. One case is a thousand such races.
func TestCloseRacesFeedback(t *testing.T) {
	rec := kit.NewRecorder("C16", "close-races-feedback",
		"per case 1000 estimators (NoOp or leaky-bucket pacer), 1-2 goroutines feeding TWCC / RFC 8888 feedback in a tight loop, Close after 0..200 yields; "+
			"all calls return within the watchdog deadline, WriteRTCP returns nil or ErrSendSideBWEClosed; non-trivial = always; distinct by parameters")
	rapid.Check(t, func(t *rapid.T) {
		kit.Idle()
		feeders := rapid.IntRange(1, 2).Draw(t, "feeders")
		leaky := rapid.Bool().Draw(t, "leakyBucket")
		maxYields := rapid.SampledFrom([]int{0, 3, 20, 200}).Draw(t, "maxYields")
		seed := rapid.Uint64().Draw(t, "seed") | 1
		for round := 0; round < 1000; round++ {
			opts := []gcc.Option{}
			if !leaky {
				opts = append(opts, gcc.SendSideBWEPacer(gcc.NewNoOpPacer()))
			}
			bwe, err := gcc.NewSendSideBWE(opts...)
			if err != nil {
				t.Fatalf("NewSendSideBWE: %v", err)
			}
			w := bwe.AddStream(&interceptor.StreamInfo{SSRC: 1, RTPHeaderExtensions: []interceptor.RTPHeaderExtension{{URI: transportCCURI, ID: extID}}}, &kit.RTPSink{})
			for i := uint16(0); i < 4; i++ {
				hdr := rtp.Header{Version: 2, SSRC: 1, SequenceNumber: i}
				ext, _ := (rtp.TransportCCExtension{TransportSequence: i}).Marshal()
				_ = hdr.SetExtension(extID, ext)
				_, _ = w.Write(&hdr, []byte{1, 2, 3}, nil)
			}
			fbs := []rtcp.Packet{
				&rtcp.CCFeedbackReport{SenderSSRC: 9, ReportTimestamp: 7, ReportBlocks: []rtcp.CCFeedbackReportBlock{{MediaSSRC: 1, BeginSequence: 0,
					MetricBlocks: []rtcp.CCFeedbackMetricBlock{{Received: true, ArrivalTimeOffset: 3}, {Received: true, ArrivalTimeOffset: 2}}}}},
				kit.EncodeTWCC(t, kit.TWCCSpec{Base: 0, RefTime: 1, Statuses: []kit.TWCCStatus{{Received: true, Delta250: 4}, {Received: true, Delta250: 4}, {Received: true, Delta250: 4}}}, 0),
			}
			var wg sync.WaitGroup
			stop := make(chan struct{})
			var bad error
			var badMu sync.Mutex
			for f := 0; f < feeders; f++ {
				wg.Add(1)
				go func(f int) {
					defer wg.Done()
					for k := 0; ; k++ {
						select {
						case <-stop:
							return
						default:
						}
						if o := kit.Recover(func() {
							if werr := bwe.WriteRTCP([]rtcp.Packet{fbs[(k+f)%2]}, nil); werr != nil && !errors.Is(werr, gcc.ErrSendSideBWEClosed) {
								badMu.Lock()
								bad = werr
								badMu.Unlock()
							}
						}); !o.OK() {
							badMu.Lock()
							bad = errors.New(o.String())
							badMu.Unlock()

							return
						}
					}
				}(f)
			}
			seed ^= seed << 13
			seed ^= seed >> 7
			seed ^= seed << 17
			for y := 0; maxYields > 0 && y < int(seed%uint64(maxYields+1)); y++ { //nolint:gosec
				runtime.Gosched()
			}
			if o := kit.Guard(5*time.Second, func() { _ = bwe.Close() }); !o.OK() {
				t.Fatalf("round %d: Close while %d goroutine(s) feed feedback: %s", round, feeders, o)
			}
			close(stop)
			if o := kit.Guard(5*time.Second, wg.Wait); !o.OK() {
				t.Fatalf("round %d: WriteRTCP racing with Close: %s", round, o)
			}
			badMu.Lock()
			b := bad
			badMu.Unlock()
			if b != nil {
				t.Fatalf("round %d: WriteRTCP racing with Close: %v", round, b)
			}
			if werr := bwe.WriteRTCP([]rtcp.Packet{fbs[0]}, nil); !errors.Is(werr, gcc.ErrSendSideBWEClosed) {
				t.Fatalf("round %d: WriteRTCP after Close returned %v, want ErrSendSideBWEClosed", round, werr)
			}
		}
		rec.Case(kit.NewH().I(feeders, maxYields).U(seed).Sum(), true, []string{"rounds=1000"}, func() any {
			return map[string]any{"feeders": feeders, "leaky_bucket": leaky, "max_yields_before_close": maxYields, "rounds": 1000}
		})
	})
}
