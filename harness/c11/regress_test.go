package c11

import (
	"testing"
	"time"

	"github.com/pion/interceptor"
	"github.com/pion/interceptor/verifharness/kit"
	"github.com/pion/rtcp"
	"github.com/pion/rtp"
)

func TestRegressIntervalPLIStopsAfterUnbindRemote(t *testing.T) {
	m := kit.NewMember("intervalpli", interval)
	ic, _ := m.Factory.NewInterceptor("x")
	defer kit.BoundedClose(ic.Close)
	sink := &kit.RTCPSink{}
	ic.BindRTCPWriter(sink)
	info := kit.RemoteInfo(0x7001, twccID)
	ic.BindRemoteStream(info, &kit.ByteSource{})
	time.Sleep(3 * interval)
	ic.UnbindRemoteStream(info)
	from := sink.Len()
	time.Sleep(8 * interval)
	if n, _ := countAbout(sink.Calls()[from:], 0x7001); n > 1 {
		kit.WriteReplay("TestRegressIntervalPLIStopsAfterUnbindRemote", []byte(`{"ops":["BindRTCPWriter","BindRemoteStream 0x7001","UnbindRemoteStream 0x7001"]}`))
		t.Fatalf("%d PLIs for ssrc 0x7001 after UnbindRemoteStream returned", n)
	}
}

func TestRegressJitterBufferPlaysAfterRebind(t *testing.T) {
	m := kit.NewMember("jitterbuffer", interval)
	ic, _ := m.Factory.NewInterceptor("x")
	defer kit.BoundedClose(ic.Close)
	info := kit.RemoteInfo(0x7001, twccID)
	feed := func(start uint16) int {
		src := &kit.ByteSource{}
		r := ic.BindRemoteStream(info, src)
		ok := 0
		for i := 0; i < 70; i++ {
			raw, _ := (&rtp.Packet{Header: rtp.Header{Version: 2, SSRC: 0x7001, SequenceNumber: start + uint16(i)}, Payload: []byte{1}}).Marshal() //nolint:gosec
			src.Push(raw)
			if _, _, err := r.Read(make([]byte, 1500), interceptor.Attributes{}); err == nil {
				ok++
			}
		}

		return ok
	}
	feed(100)
	ic.UnbindRemoteStream(info)
	if feed(9000) == 0 {
		kit.WriteReplay("TestRegressJitterBufferPlaysAfterRebind", []byte(`{"ops":["bind","70 packets","unbind","bind","70 packets"]}`))
		t.Fatalf("a stream bound again after playback had started is never played out")
	}
}

func TestRegressLeakyBucketQuietAfterClose(t *testing.T) {
	for round := 0; round < 30; round++ {
		m := kit.NewMember("cc-leaky-bucket", interval)
		ic, _ := m.Factory.NewInterceptor("x")
		sink := &kit.RTPSink{}
		w := ic.BindLocalStream(kit.LocalInfo(0x6001, twccID, false, false), sink)
		for i := 0; i < 200; i++ {
			h := kit.WithTWCC(rtp.Header{Version: 2, SSRC: 0x6001, SequenceNumber: uint16(i)}, twccID, uint16(i)) //nolint:gosec
			_, _ = w.Write(&h, make([]byte, 1000), interceptor.Attributes{})
		}
		time.Sleep(time.Duration(4800+round*20) * time.Microsecond) // Close lands around a pacing tick
		_ = ic.Close()
		n := sink.Len()
		time.Sleep(12 * time.Millisecond)
		if sink.Len() != n {
			kit.WriteReplay("TestRegressLeakyBucketQuietAfterClose", []byte(`{"ops":["200 writes","Close"]}`))
			t.Fatalf("%d packets were written after Close had returned", sink.Len()-n)
		}
	}
}

// TestRegressSecondCloseDoesNotPanic: Close, then Close again, for the members whose second Close panicked with "close of closed channel".
func TestRegressSecondCloseDoesNotPanic(t *testing.T) {
	for _, name := range []string{"pacing", "cc-noop-pacer", "cc-leaky-bucket"} {
		m := kit.NewMember(name, interval)
		ic, err := m.Factory.NewInterceptor("x")
		if err != nil {
			t.Fatal(err)
		}
		ic.BindRTCPWriter(&kit.RTCPSink{})
		ic.BindLocalStream(kit.LocalInfo(0x6001, twccID, true, true), &kit.RTPSink{})
		for i := 1; i <= 2; i++ {
			if o := kit.Guard(0, func() { _ = ic.Close() }); !o.OK() {
				kit.WriteReplay("TestRegressSecondCloseDoesNotPanic", []byte(`{"member":"`+name+`","ops":["BindRTCPWriter","BindLocalStream 0x6001","Close","Close"]}`))
				t.Fatalf("%s: Close call %d: %s", name, i, o)
			}
		}
	}
}

// TestRegressResponderCloseWaitsForRetransmissions: 17 packets sent through a slow transport, a NACK for all of them read, then Close:
// no retransmission may still be in progress when Close returns.
func TestRegressResponderCloseWaitsForRetransmissions(t *testing.T) {
	for round := 0; round < 30; round++ {
		m := kit.NewMember("nack-responder", interval)
		ic, _ := m.Factory.NewInterceptor("x")
		sink := &kit.RTPSink{HoldSleep: 200 * time.Microsecond}
		w := ic.BindLocalStream(kit.LocalInfo(0x6001, twccID, true, true), sink)
		src := &kit.ByteSource{}
		rr := ic.BindRTCPReader(src)
		for i := 0; i < 17; i++ {
			_, _ = w.Write(&rtp.Header{Version: 2, SSRC: 0x6001, SequenceNumber: uint16(100 + i)}, []byte{1, 2, 3}, nil) //nolint:gosec
		}
		raw, _ := rtcp.Marshal([]rtcp.Packet{&rtcp.TransportLayerNack{SenderSSRC: 9, MediaSSRC: 0x6001, Nacks: []rtcp.NackPair{{PacketID: 100, LostPackets: 0xffff}}}})
		src.Push(raw)
		_, _, _ = rr.Read(make([]byte, 1500), interceptor.Attributes{})
		time.Sleep(time.Duration(round*40) * time.Microsecond)
		if o := kit.Guard(0, func() { _ = ic.Close() }); !o.OK() {
			t.Fatalf("Close: %s", o)
		}
		if n := sink.InFlight(); n > 0 {
			kit.WriteReplay("TestRegressResponderCloseWaitsForRetransmissions", []byte(`{"member":"nack-responder","ops":["BindLocalStream 0x6001","17 writes","NACK 100..116","Close"]}`))
			t.Fatalf("round %d: Close returned while %d retransmission(s) were still being written", round, n)
		}
	}
}
