package c11

import (
	"fmt"
	"sync"
	"testing"
	"time"

	"github.com/pion/interceptor"
	"github.com/pion/interceptor/pkg/nack"
	"github.com/pion/interceptor/verifharness/kit"
	"github.com/pion/rtcp"
	"github.com/pion/rtp"
	"pgregory.net/rapid"
)

// TestGeneratorFreshAfterUnbindDuringWrite: "after Unbind returns its per-stream state is released, and binding the same SSRC again starts from
// fresh state" for the part of the NACK generator's state that only exists with a per-packet limit: how often a number has been requested.
// The stream is unbound while a NACK about it is still inside a slow RTCP writer, bound again, and loses the same number again: a fresh stream
// gets that number requested as often as the limit allows, not less.
func TestGeneratorFreshAfterUnbindDuringWrite(t *testing.T) {
	rec := kit.NewRecorder("C11", "nack-generator-limit-fresh-after-rebind",
		"nack generator with a per-packet limit 1..3, a gap in 2..40 packets, UnbindRemoteStream while the first NACK is held in the RTCP writer (or just after it returned), "+
			"rebind of the same SSRC losing the same number; requests for it after the rebind reach the limit; non-trivial = Unbind while the write was held; distinct by parameters")
	rapid.Check(t, func(t *rapid.T) {
		kit.Idle()
		limit := rapid.IntRange(1, 3).Draw(t, "limit")
		start := kit.U16Boundary().Draw(t, "start")
		n := rapid.IntRange(2, 40).Draw(t, "packets")
		lost := rapid.IntRange(1, n-1).Draw(t, "lost")
		duringWrite := rapid.IntRange(0, 3).Draw(t, "duringWrite") != 0
		f, err := nack.NewGeneratorInterceptor(nack.GeneratorSize(512), nack.GeneratorMaxNacksPerPacket(uint16(limit)), nack.GeneratorInterval(time.Millisecond)) //nolint:gosec
		if err != nil {
			t.Fatalf("factory: %v", err)
		}
		ic, err := f.NewInterceptor("")
		if err != nil {
			t.Fatalf("NewInterceptor: %v", err)
		}
		defer kit.BoundedClose(ic.Close)
		missing := start + uint16(lost) //nolint:gosec
		var mu sync.Mutex
		phase := 0 // 0: first binding, 1: after the rebind
		requests := 0
		entered, release := make(chan struct{}, 1), make(chan struct{})
		var once sync.Once
		sink := &kit.RTCPSink{}
		sink.OnCall = func(c kit.SentRTCP) {
			names := false
			for _, p := range c.Pkts {
				if nk, ok := p.(*rtcp.TransportLayerNack); ok && nk.MediaSSRC == 77 {
					for _, pair := range nk.Nacks {
						for _, s := range pair.PacketList() {
							names = names || s == missing
						}
					}
				}
			}
			if !names {
				return
			}
			mu.Lock()
			if phase == 1 {
				requests++
			}
			hold := phase == 0 && duringWrite
			mu.Unlock()
			if hold {
				once.Do(func() {
					entered <- struct{}{}
					<-release
				})
			}
		}
		ic.BindRTCPWriter(sink)
		info := &interceptor.StreamInfo{SSRC: 77, RTCPFeedback: []interceptor.RTCPFeedback{{Type: "nack"}}}
		feed := func(r interceptor.RTPReader, src *kit.ByteSource) {
			for i := 0; i <= n; i++ {
				if i == lost {
					continue
				}
				raw, _ := (&rtp.Packet{Header: rtp.Header{Version: 2, SSRC: 77, SequenceNumber: start + uint16(i)}, Payload: []byte{1}}).Marshal() //nolint:gosec
				src.Push(raw)
				if _, _, err := r.Read(make([]byte, 1500), interceptor.Attributes{}); err != nil {
					t.Fatalf("Read: %v", err)
				}
			}
		}
		src := &kit.ByteSource{}
		feed(ic.BindRemoteStream(info, src), src)
		if duringWrite {
			select {
			case <-entered:
			case <-time.After(3 * kit.DefaultDeadline):
				close(release)
				t.Fatalf("number %d is missing (limit %d) but no NACK was written", missing, limit)
			}
		} else {
			time.Sleep(time.Duration(rapid.IntRange(0, 3000).Draw(t, "beforeUnbindUs")) * time.Microsecond)
		}
		if o := kit.Guard(0, func() { ic.UnbindRemoteStream(info) }); !o.OK() {
			close(release)
			t.Fatalf("UnbindRemoteStream while a NACK is being written: %s", o)
		}
		close(release)
		kit.Eventually(3*kit.DefaultDeadline, func() bool { return sink.InFlight() == 0 })
		time.Sleep(3 * time.Millisecond) // what was decided before the Unbind has been written by now
		mu.Lock()
		phase = 1
		mu.Unlock()
		src2 := &kit.ByteSource{}
		feed(ic.BindRemoteStream(info, src2), src2)
		got := func() int { mu.Lock(); defer mu.Unlock(); return requests }
		if !kit.Eventually(5*time.Second, func() bool { return got() >= limit }) {
			t.Fatalf("limit %d, packets %d..%d without %d: after UnbindRemoteStream (during the NACK write: %v) and a new bind that loses the same number, it was requested %d times in 5 s - a fresh stream gets %d requests",
				limit, start, start+uint16(n), missing, duringWrite, got(), limit) //nolint:gosec
		}
		time.Sleep(5 * time.Millisecond)
		if g := got(); g > limit {
			t.Fatalf("limit %d: number %d was requested %d times after the rebind", limit, missing, g)
		}
		rec.Case(kit.NewH().I(limit, n, lost).U(uint64(start)).S(fmt.Sprint(duringWrite)).Sum(), duringWrite, []string{fmt.Sprintf("limit=%d", limit)}, func() any {
			return map[string]any{"limit": limit, "start": start, "packets": n, "lost_index": lost, "unbind_during_write": duringWrite, "requests_after_rebind": got()}
		})
	})
}
