// Package c11 checks lifecycle behaviour of every interceptor.
package c11

import "runtime"

func goroutineDump() string {
	buf := make([]byte, 1<<20)
	n := runtime.Stack(buf, true)
	if n > 8000 {
		n = 8000
	}

	return string(buf[:n])
}
