package c11

import (
	"errors"
	"fmt"
	"os"
	"sync/atomic"
	"sort"
	"strings"
	"sync"
	"testing"
	"time"

	"github.com/pion/interceptor"
	"github.com/pion/interceptor/verifharness/kit"
	"github.com/pion/rtcp"
	"github.com/pion/rtp"
	"pgregory.net/rapid"
)

var errRTCPWriter = errors.New("injected RTCP writer error")

const (
	twccID   = 5
	interval = time.Millisecond
	deadline = 10 * time.Second // "blocks indefinitely" is decided as "does not return within this"
)

// about: does RTCP packet p say something specifically about ssrc (a per-stream report or request)?
// Transport-wide feedback is not per stream and is not counted.
func about(p rtcp.Packet, ssrc uint32) string {
	switch v := p.(type) {
	case *rtcp.ReceiverReport:
		for _, r := range v.Reports {
			if r.SSRC == ssrc {
				return "receiver report"
			}
		}
	case *rtcp.SenderReport:
		if v.SSRC == ssrc {
			return "sender report"
		}
	case *rtcp.TransportLayerNack:
		if v.MediaSSRC == ssrc {
			return "NACK"
		}
	case *rtcp.PictureLossIndication:
		if v.MediaSSRC == ssrc {
			return "PLI"
		}
	case *rtcp.CCFeedbackReport:
		for _, b := range v.ReportBlocks {
			if b.MediaSSRC == ssrc {
				return "RFC 8888 report block"
			}
		}
	}

	return ""
}

func countAbout(calls []kit.SentRTCP, ssrc uint32) (int, string) {
	n, kind, _ := countAboutAt(calls, ssrc)

	return n, kind
}

// countAboutAt also returns when the last of the matching writes began.
func countAboutAt(calls []kit.SentRTCP, ssrc uint32) (int, string, time.Time) {
	n, kind := 0, ""
	var last time.Time
	for _, c := range calls {
		hit := ""
		for _, p := range c.Pkts {
			if k := about(p, ssrc); k != "" {
				hit = k
			}
		}
		if hit != "" {
			n++
			kind = hit
			last = c.At
		}
	}

	return n, kind, last
}

// lingering decides whether what was written about a stream after its Unbind returned goes beyond "one already in flight". Two writes can
// both have been decided before the Unbind (a queued immediate request and a periodic batch whose stream list was taken a moment earlier; seen
// once in 17000 cases): they begin within moments. Anything decided afterwards comes with a later tick, so more than one write counts only if
// the last of them began more than half an interval after the Unbind had returned.
func lingering(n int, last, unboundAt time.Time) bool {
	return n > 1 && last.Sub(unboundAt) > interval/2
}

type local struct {
	info  *interceptor.StreamInfo
	sink  *kit.RTPSink
	w     interceptor.RTPWriter
	bound bool
	seq   uint16
	sent  int // since the last bind
	binds int
}

type remote struct {
	info  *interceptor.StreamInfo
	src   *kit.ByteSource
	r     interceptor.RTPReader
	bound bool
	seq   uint16
	first uint16 // first number since the last bind
	got   int    // since the last bind
	binds int
}

// members with more lifecycle-relevant state are drawn more often
// every member once, and the ones with report loops, per-stream state or goroutines of their own several times more
var members = append(append([]string{}, kit.AllNames...), "jitterbuffer", "jitterbuffer", "jitterbuffer", "intervalpli", "intervalpli", "rfc8888", "rfc8888",
	"cc-leaky-bucket", "cc-user-pacer", "pacing", "twcc-sender", "twcc-sender", "twcc-sender", "nack-generator", "report-receiver", "report-receiver", "report-receiver",
	"report-sender", "nack-responder", "nack-responder", "nack-responder-small", "stats")

func TestLifecycle(t *testing.T) {
	rec := kit.NewRecorder("C11", "lifecycle-state-machine",
		"rapid state machine per interceptor over BindRTCPWriter/BindRTCPReader/BindLocalStream/BindRemoteStream (3 SSRCs each way)/traffic/Unbind*/re-bind/Close (once, at any point, "+
			"optionally from a second goroutine while traffic is in progress), 1 ms intervals, every call under a watchdog; non-trivial = an Unbind followed by more ticks, or a Close with traffic in flight; "+
			"distinct by interceptor and operation trace")
	rapid.Check(t, func(t *rapid.T) {
		kit.Idle()
		name := rapid.SampledFrom(members).Draw(t, "member")
		if only := os.Getenv("VERIF_C11_MEMBER"); only != "" {
			name = only
		}
		m := kit.NewMember(name, interval)
		base := kit.StableGoroutines()
		ic, err := m.Factory.NewInterceptor("rig")
		if err != nil {
			t.Fatalf("NewInterceptor(%s): %v", name, err)
		}
		rtcpSink := &kit.RTCPSink{Delay: 200 * time.Microsecond} // a slow transport: a tick is often still writing when Close is called
		rtcpSrc := &kit.ByteSource{}
		var rtcpIn interceptor.RTCPReader
		writerBound, closed := false, false
		locals := make([]*local, 3)
		remotes := make([]*remote, 3)
		for i := range locals {
			locals[i] = &local{info: kit.LocalInfo(uint32(0x6001+i), twccID, true, true), seq: uint16(1000 * (i + 1))}  //nolint:gosec
			remotes[i] = &remote{info: kit.RemoteInfo(uint32(0x7001+i), twccID), seq: uint16(3000 * (i + 1))} //nolint:gosec
		}
		var tw uint16
		trace := kit.NewH().S(name)
		var ops []string
		logOp := func(f string, a ...any) {
			if len(ops) < 60 {
				ops = append(ops, fmt.Sprintf(f, a...))
			}
		}
		unbindThenTicks, closeInFlight := false, false
		guard := func(what string, fn func()) {
			if o := kit.Guard(deadline, fn); !o.OK() {
				t.Fatalf("%s: %s after %v: %s", name, what, ops, o)
			}
		}
		// known finding: the interval PLI generator hands the "send a PLI now" request to its loop over a one-slot channel; with
		// no RTCP writer bound there is no loop, and the second BindRemoteStream blocks. Excluded by construction, counted.
		pliWithoutWriter := func() bool { return name == "intervalpli" && !writerBound && !closed }
		pliBindsWithoutWriter := 0
		sendRTP := func(l *local) {
			l.seq++
			tw++
			h := kit.WithTWCC(rtp.Header{Version: 2, SSRC: l.info.SSRC, PayloadType: 96, SequenceNumber: l.seq, Timestamp: uint32(l.seq) * 3000}, twccID, tw)
			guard("Write", func() { _, _ = l.w.Write(&h, []byte{1, 2, 3, 4}, interceptor.Attributes{}) })
			l.sent++
		}
		recvRTP := func(r *remote) {
			r.seq++
			tw++
			if r.got == 0 {
				r.first = r.seq
			}
			h := kit.WithTWCC(rtp.Header{Version: 2, SSRC: r.info.SSRC, PayloadType: 96, SequenceNumber: r.seq, Timestamp: uint32(r.seq) * 3000}, twccID, tw)
			raw, _ := (&rtp.Packet{Header: h, Payload: []byte{1, 2, 3}}).Marshal()
			r.src.Push(raw)
			guard("Read", func() { _, _, _ = r.r.Read(make([]byte, 1500), interceptor.Attributes{}) })
			r.got++
		}
		forceFresh := false
		var actions map[string]func(*rapid.T)
		forcedRemote := -1
		actions = map[string]func(*rapid.T){
			"bindRTCPWriter": func(t *rapid.T) {
				if writerBound {
					t.Skip("bound")
				}
				trace.U(1)
				logOp("BindRTCPWriter")
				guard("BindRTCPWriter", func() { ic.BindRTCPWriter(rtcpSink) })
				writerBound = true
			},
			"bindRTCPReader": func(t *rapid.T) {
				if rtcpIn != nil {
					t.Skip("bound")
				}
				trace.U(2)
				logOp("BindRTCPReader")
				guard("BindRTCPReader", func() { rtcpIn = ic.BindRTCPReader(rtcpSrc) })
			},
			"bindLocal": func(t *rapid.T) {
				l := locals[rapid.IntRange(0, 2).Draw(t, "l")]
				if l.bound {
					t.Skip("bound")
				}
				trace.U(3, uint64(l.info.SSRC))
				logOp("BindLocalStream %#x", l.info.SSRC)
				l.sink = &kit.RTPSink{HoldYields: 20}
				if strings.HasPrefix(name, "nack-responder") {
					l.sink.HoldSleep = 100 * time.Microsecond // retransmissions are written from goroutines of the interceptor: keep them busy for a while
				} // a slow transport: asynchronous writers are still busy when lifecycle calls arrive
				guard("BindLocalStream", func() { l.w = ic.BindLocalStream(l.info, l.sink) })
				l.bound, l.sent = true, 0
				l.binds++
				l.seq += 5000 // a re-bound stream starts somewhere else
				if l.binds >= 2 && writerBound && !closed && rapid.Bool().Draw(t, "checkFresh") {
					actions["freshAfterRebind"](t)
				}
			},
			"bindRemote": func(t *rapid.T) {
				r := remotes[rapid.IntRange(0, 2).Draw(t, "r")]
				if forcedRemote >= 0 {
					r = remotes[forcedRemote]
				}
				if m.Buffering {
					r = remotes[0] // the jitter-buffer interceptor has one buffer: it serves one stream
				}
				if r.bound {
					t.Skip("bound")
				}
				if pliWithoutWriter() && pliBindsWithoutWriter >= 1 && kit.Known("C11-intervalpli-bind-before-writer-blocks") {
					rec.Excluded("C11-intervalpli-bind-before-writer-blocks")
					t.Skip("excluded: known finding")
				}
				if pliWithoutWriter() {
					pliBindsWithoutWriter++
				}
				trace.U(4, uint64(r.info.SSRC))
				logOp("BindRemoteStream %#x", r.info.SSRC)
				r.src = &kit.ByteSource{}
				guard("BindRemoteStream", func() { r.r = ic.BindRemoteStream(r.info, r.src) })
				r.bound, r.got = true, 0
				r.binds++
				r.seq += 7000
				if r.binds >= 2 && writerBound && !closed && rapid.Bool().Draw(t, "checkFresh") {
					actions["freshAfterRebind"](t)
				}
			},
			"traffic": func(t *rapid.T) {
				if !writerBound && !closed {
					// every real caller binds the RTCP writer before media flows (the feedback generators only start their
					// loops then); the statement makes no promise about reads before that
					t.Skip("RTCP writer not bound yet")
				}
				n := rapid.IntRange(1, 8).Draw(t, "n")
				if m.Buffering {
					n = rapid.IntRange(1, 70).Draw(t, "nBuffered") // enough to start (and continue) playback
				}
				trace.U(5).I(n)
				logOp("traffic x%d", n)
				for i := 0; i < n; i++ {
					for _, l := range locals {
						if l.bound {
							sendRTP(l)
						}
					}
					for _, r := range remotes {
						if r.bound {
							recvRTP(r)
						}
					}
				}
				if rtcpIn != nil {
					raw, _ := rtcp.Marshal([]rtcp.Packet{&rtcp.ReceiverReport{SSRC: 9}, &rtcp.TransportLayerNack{SenderSSRC: 9, MediaSSRC: locals[0].info.SSRC, Nacks: []rtcp.NackPair{{PacketID: locals[0].seq}}}})
					rtcpSrc.Push(raw)
					guard("RTCP Read", func() { _, _, _ = rtcpIn.Read(make([]byte, 1500), interceptor.Attributes{}) })
				}
				if rapid.Bool().Draw(t, "pause") {
					time.Sleep(2 * interval)
				}
			},
			"unbindLocal": func(t *rapid.T) {
				l := locals[rapid.IntRange(0, 2).Draw(t, "l")]
				if !l.bound {
					t.Skip("not bound")
				}
				trace.U(6, uint64(l.info.SSRC))
				logOp("UnbindLocalStream %#x", l.info.SSRC)
				// a NACK for the last 17 packets of this stream arrives just before (the statement limits what may follow an Unbind for feedback and
				// reports only, so retransmissions still in progress are not judged here; the same stimulus before Close is, see "close")
				if rtcpIn != nil && l.sent > 0 && rapid.Bool().Draw(t, "nackJustBefore") {
					raw, _ := rtcp.Marshal([]rtcp.Packet{&rtcp.TransportLayerNack{SenderSSRC: 9, MediaSSRC: l.info.SSRC, Nacks: []rtcp.NackPair{{PacketID: l.seq - 16, LostPackets: 0xffff}}}})
					rtcpSrc.Push(raw)
					guard("RTCP Read", func() { _, _, _ = rtcpIn.Read(make([]byte, 1500), interceptor.Attributes{}) })
				}
				uinfo := l.info
				if rapid.IntRange(0, 3).Draw(t, "unbindBySSRCOnly") == 0 {
					uinfo = &interceptor.StreamInfo{SSRC: l.info.SSRC} // the caller kept only the SSRC: it is what identifies the stream
				}
				// for the observation after the Unbind the transport is fast and idle: whatever was decided before the Unbind then begins
				// within moments of it (see lingering) instead of queueing behind a slow write
				rtcpSink.SetFast(true)
				kit.Eventually(20*time.Millisecond, func() bool { return rtcpSink.InFlight() == 0 })
				guard("UnbindLocalStream", func() { ic.UnbindLocalStream(uinfo) })
				unboundAt := time.Now()
				defer rtcpSink.SetFast(false)
				l.bound = false
				from := rtcpSink.Len()
				time.Sleep(5 * interval)
				unbindThenTicks = unbindThenTicks || writerBound
				if n, kind, last := countAboutAt(rtcpSink.Calls()[from:], l.info.SSRC); lingering(n, last, unboundAt) {
					t.Fatalf("%s: %d messages (%s) about ssrc %#x were written during the 5 intervals after UnbindLocalStream returned (ops %v)", name, n, kind, l.info.SSRC, ops)
				}
			},
			"unbindRemote": func(t *rapid.T) {
				r := remotes[rapid.IntRange(0, 2).Draw(t, "r")]
				if forcedRemote >= 0 {
					r = remotes[forcedRemote]
				}
				if !r.bound {
					t.Skip("not bound")
				}
				trace.U(7, uint64(r.info.SSRC))
				logOp("UnbindRemoteStream %#x", r.info.SSRC)
				if writerBound && r.got > 0 && rapid.Bool().Draw(t, "lossJustBefore") {
					// a packet is missing when the stream goes away: whoever was going to ask for it must forget about it
					r.seq++
					recvRTP(r)
				}
				uinfo := r.info
				if rapid.IntRange(0, 3).Draw(t, "unbindBySSRCOnly") == 0 {
					uinfo = &interceptor.StreamInfo{SSRC: r.info.SSRC}
				}
				// for the observation after the Unbind the transport is fast and idle: whatever was decided before the Unbind then begins
				// within moments of it (see lingering) instead of queueing behind a slow write
				rtcpSink.SetFast(true)
				kit.Eventually(20*time.Millisecond, func() bool { return rtcpSink.InFlight() == 0 })
				guard("UnbindRemoteStream", func() { ic.UnbindRemoteStream(uinfo) })
				unboundAt := time.Now()
				defer rtcpSink.SetFast(false)
				r.bound = false
				from := rtcpSink.Len()
				if rtcpIn != nil && rapid.Bool().Draw(t, "lateSR") {
					// a sender report of the stream that has just been removed still arrives: it must not bring the stream back
					raw, _ := rtcp.Marshal([]rtcp.Packet{&rtcp.SenderReport{SSRC: r.info.SSRC, NTPTime: 1 << 40, RTPTime: 1, PacketCount: 1, OctetCount: 1}})
					rtcpSrc.Push(raw)
					guard("RTCP Read", func() { _, _, _ = rtcpIn.Read(make([]byte, 1500), interceptor.Attributes{}) })
				}
				time.Sleep(5 * interval)
				unbindThenTicks = unbindThenTicks || writerBound
				if n, kind, last := countAboutAt(rtcpSink.Calls()[from:], r.info.SSRC); lingering(n, last, unboundAt) {
					if kind == "RFC 8888 report block" && kit.Known("C11-rfc8888-ignores-unbind") {
						rec.KnownHit("C11-rfc8888-ignores-unbind")

						return
					}
					t.Fatalf("%s: %d messages (%s) about ssrc %#x were written during the 5 intervals after UnbindRemoteStream returned (ops %v)", name, n, kind, r.info.SSRC, ops)
				}
			},
			"freshAfterRebind": func(t *rapid.T) {
				if forceFresh {
					forceFresh = false
				}
				// a stream bound for the second time must start from fresh state
				var l *local
				for _, c := range locals {
					if c.bound && c.binds >= 2 && c.sent == 0 {
						l = c
					}
				}
				var r *remote
				for _, c := range remotes {
					if c.bound && c.binds >= 2 && c.got == 0 {
						r = c
					}
				}
				if (l == nil && r == nil) || !writerBound || closed {
					t.Skip("nothing re-bound")
				}
				trace.U(8)
				logOp("freshAfterRebind")
				if l != nil {
					for i := 0; i < 3; i++ {
						sendRTP(l)
					}
					from := rtcpSink.Len()
					time.Sleep(4 * interval)
					for _, c := range rtcpSink.Calls()[from:] {
						for _, p := range c.Pkts {
							if sr, ok := p.(*rtcp.SenderReport); ok && sr.SSRC == l.info.SSRC && int(sr.PacketCount) > l.sent {
								t.Fatalf("%s: ssrc %#x was bound again and %d packets sent since, but the sender report counts %d (ops %v)", name, l.info.SSRC, l.sent, sr.PacketCount, ops)
							}
						}
					}
				}
				if r != nil {
					n := 3
					if m.Buffering {
						n = 60 // the jitter buffer starts emitting after 50 packets
					}
					okReads := 0
					for i := 0; i < n; i++ {
						r.seq++
						tw++
						if r.got == 0 {
							r.first = r.seq
						}
						h := kit.WithTWCC(rtp.Header{Version: 2, SSRC: r.info.SSRC, PayloadType: 96, SequenceNumber: r.seq}, twccID, tw)
						raw, _ := (&rtp.Packet{Header: h, Payload: []byte{1, 2, 3}}).Marshal()
						r.src.Push(raw)
						var rerr error
						guard("Read", func() { _, _, rerr = r.r.Read(make([]byte, 1500), interceptor.Attributes{}) })
						r.got++
						if rerr == nil {
							okReads++
						}
					}
					if m.Buffering && okReads == 0 {
						t.Fatalf("%s: ssrc %#x was bound again and 60 in-order packets were read, but not one was released (ops %v)", name, r.info.SSRC, ops)
					}
					from := rtcpSink.Len()
					time.Sleep(4 * interval)
					for _, c := range rtcpSink.Calls()[from:] {
						for _, p := range c.Pkts {
							switch v := p.(type) {
							case *rtcp.ReceiverReport:
								for _, rr := range v.Reports {
									// (a report generated while the packets were still being read may name any of the new numbers; one generated
									// before the first of them was processed - and written late by a descheduled loop - is the empty report)
									if rr.SSRC == r.info.SSRC && rr.LastSequenceNumber == 0 && rr.TotalLost == 0 && rr.Jitter == 0 {
										continue
									}
									if rr.SSRC == r.info.SSRC && (rr.TotalLost != 0 || uint16(rr.LastSequenceNumber)-r.first > r.seq-r.first || rr.LastSequenceNumber>>16 != 0) { //nolint:gosec
										t.Fatalf("%s: ssrc %#x was bound again and received %d..%d in order, but its receiver report says highest %d (cycles %d), cumulative lost %d (ops %v)",
											name, r.info.SSRC, r.first, r.seq, uint16(rr.LastSequenceNumber), rr.LastSequenceNumber>>16, rr.TotalLost, ops) //nolint:gosec
									}
								}
							case *rtcp.TransportLayerNack:
								if v.MediaSSRC == r.info.SSRC {
									t.Fatalf("%s: ssrc %#x was bound again and received %d..%d in order, but a NACK requests %v (ops %v)", name, r.info.SSRC, r.first, r.seq, v.Nacks, ops)
								}
							case *rtcp.CCFeedbackReport:
								for _, b := range v.ReportBlocks {
									if b.MediaSSRC == r.info.SSRC && len(b.MetricBlocks) > 0 && (uint16(b.BeginSequence-r.first) > uint16(r.got)) { //nolint:gosec
										if kit.Known("C11-rfc8888-ignores-unbind") {
											rec.KnownHit("C11-rfc8888-ignores-unbind")

											continue
										}
										t.Fatalf("%s: ssrc %#x was bound again and received %d..%d, but its RFC 8888 block begins at %d (state of the earlier binding) (ops %v)", name, r.info.SSRC, r.first, r.seq, b.BeginSequence, ops)
									}
								}
							}
						}
					}
				}
			},
			"failRTCPWrites": func(t *rapid.T) {
				if !writerBound || closed {
					t.Skip("no writer / closed")
				}
				n := rapid.IntRange(1, 3).Draw(t, "failures")
				trace.U(10).I(n)
				logOp("next %d RTCP writes fail", n)
				var left = int32(n)
				rtcpSink.SetFailIf(func(kit.SentRTCP) error {
					if atomic.AddInt32(&left, -1) >= 0 {
						return errRTCPWriter
					}

					return nil
				})
				time.Sleep(3 * interval)
				// media keeps flowing after the writer has recovered: a report loop that gave up on the error shows now
				actions["traffic"](t)
			},
			"close": func(t *rapid.T) {
				if closed {
					t.Skip("closed")
				}
				concurrent := rapid.Bool().Draw(t, "concurrentWithTraffic")
				trace.U(9)
				logOp("Close (concurrent traffic %v)", concurrent)
				var wg sync.WaitGroup
				stop := make(chan struct{})
				if concurrent {
					closeInFlight = true
					wg.Add(1)
					go func() { // traffic in progress while Close runs
						defer wg.Done()
						for k := 0; k < 2000; k++ {
							select {
							case <-stop:
								return
							default:
							}
							for _, l := range locals {
								if l.bound {
									h := kit.WithTWCC(rtp.Header{Version: 2, SSRC: l.info.SSRC, SequenceNumber: uint16(20000 + k)}, twccID, uint16(30000+k)) //nolint:gosec
									_, _ = l.w.Write(&h, []byte{1}, interceptor.Attributes{})
								}
							}
							for _, r := range remotes {
								if r.bound {
									h := kit.WithTWCC(rtp.Header{Version: 2, SSRC: r.info.SSRC, SequenceNumber: uint16(20000 + k)}, twccID, uint16(40000+k)) //nolint:gosec
									raw, _ := (&rtp.Packet{Header: h, Payload: []byte{1}}).Marshal()
									r.src.Push(raw)
									_, _, _ = r.r.Read(make([]byte, 1500), interceptor.Attributes{})
								}
							}
							if rtcpIn != nil { // feedback keeps arriving while Close runs
								fb := &rtcp.TransportLayerCC{SenderSSRC: 9, MediaSSRC: 0x6001, BaseSequenceNumber: uint16(30000 + k - 2), PacketStatusCount: 2, ReferenceTime: uint32(k + 1), //nolint:gosec
									PacketChunks: []rtcp.PacketStatusChunk{&rtcp.RunLengthChunk{PacketStatusSymbol: rtcp.TypeTCCPacketReceivedSmallDelta, RunLength: 2}},
									RecvDeltas:   []*rtcp.RecvDelta{{Type: rtcp.TypeTCCPacketReceivedSmallDelta, Delta: 250}, {Type: rtcp.TypeTCCPacketReceivedSmallDelta, Delta: 250}}}
								fb.Header = rtcp.Header{Count: rtcp.FormatTCC, Type: rtcp.TypeTransportSpecificFeedback, Length: 5}
								raw, err := rtcp.Marshal([]rtcp.Packet{fb, &rtcp.CCFeedbackReport{SenderSSRC: 9, ReportTimestamp: uint32(k), ReportBlocks: []rtcp.CCFeedbackReportBlock{{MediaSSRC: 0x6001,
									BeginSequence: uint16(20000 + k), MetricBlocks: []rtcp.CCFeedbackMetricBlock{{Received: true, ArrivalTimeOffset: 3}}}}}}) //nolint:gosec
								if err == nil {
									rtcpSrc.Push(raw)
									_, _, _ = rtcpIn.Read(make([]byte, 1500), interceptor.Attributes{})
								}
							}
						}
					}()
					time.Sleep(time.Duration(rapid.IntRange(0, 2000).Draw(t, "delayUS")) * time.Microsecond)
				}
				// every Close call returns only after the interceptor's goroutines have finished
				// (kept at one: the property's domain has one lifecycle goroutine; two Close calls racing each other are outside it -
				// the machinery below is exercised with closers > 1 only through VERIF_C11_CLOSERS, for experiments)
				closers := kit.EnvInt("VERIF_C11_CLOSERS", 1)
				type closeRet struct {
					at       time.Time
					inFlight int
				}
				rets := make([]closeRet, closers)
				closePanics := make([]string, closers)
				var cwg sync.WaitGroup
				for c := 1; c < closers; c++ {
					cwg.Add(1)
					go func(c int) {
						defer cwg.Done()
						if o := kit.Recover(func() { _ = ic.Close() }); !o.OK() {
							closePanics[c] = o.String()
						}
						rets[c] = closeRet{at: time.Now(), inFlight: rtcpSink.InFlight()}
					}(c)
				}
				if !concurrent && rtcpIn != nil && rapid.Bool().Draw(t, "nackJustBeforeClose") {
					unbindFirst := rapid.Bool().Draw(t, "unbindAllBeforeClose")
					for _, l := range locals {
						if l.bound && l.sent > 0 { // asynchronous answers (retransmissions) to this must have finished when Close returns
							raw, _ := rtcp.Marshal([]rtcp.Packet{&rtcp.TransportLayerNack{SenderSSRC: 9, MediaSSRC: l.info.SSRC, Nacks: []rtcp.NackPair{{PacketID: l.seq - 16, LostPackets: 0xffff}}}})
							rtcpSrc.Push(raw)
							guard("RTCP Read", func() { _, _, _ = rtcpIn.Read(make([]byte, 1500), interceptor.Attributes{}) })
						}
					}
					if unbindFirst { // ... also when no stream is left bound at that moment
						logOp("Unbind all local streams")
						for _, l := range locals {
							if l.bound {
								guard("UnbindLocalStream", func() { ic.UnbindLocalStream(l.info) })
								l.bound = false
							}
						}
					}
				}
				rtpInFlight := 0
				guard("Close", func() {
					_ = ic.Close()
					rets[0] = closeRet{at: time.Now(), inFlight: rtcpSink.InFlight()}
					for _, l := range locals {
						if l.sink != nil {
							rtpInFlight += l.sink.InFlight()
						}
					}
				})
				if !concurrent && rtpInFlight > 0 { // nobody but the interceptor's own goroutines can be writing
					t.Fatalf("%s: Close returned while %d RTP write(s) by the interceptor's goroutines were still in progress (ops %v)", name, rtpInFlight, ops)
				}
				if o := kit.Guard(deadline, cwg.Wait); !o.OK() {
					t.Fatalf("%s: one of %d concurrent Close calls did not return (ops %v): %s", name, closers, ops, o)
				}
				closed = true
				for c, p := range closePanics {
					if p != "" {
						t.Fatalf("%s: Close call %d of %d concurrent ones: %s (ops %v)", name, c+1, closers, p, ops)
					}
				}
				first := rets[0].at
				for c, r := range rets {
					if r.inFlight > 0 {
						t.Fatalf("%s: Close call %d of %d returned while %d RTCP write(s) of the interceptor's goroutines were still in progress (ops %v)", name, c+1, closers, r.inFlight, ops)
					}
					if r.at.Before(first) {
						first = r.at
					}
				}
				for _, c := range rtcpSink.Calls() {
					if c.At.After(first) {
						t.Fatalf("%s: an RTCP write started %v after the first of %d Close calls had returned (ops %v)", name, c.At.Sub(first), closers, ops)
					}
				}
				rtcpAfter := rtcpSink.Len()
				close(stop)
				if o := kit.Guard(deadline, wg.Wait); !o.OK() {
					t.Fatalf("%s: traffic running concurrently with Close is stuck (ops %v): %s", name, ops, o)
				}
				// nothing more is written, and every goroutine the interceptor started is gone
				rtpAfter := 0
				for _, l := range locals {
					if l.sink != nil {
						rtpAfter += l.sink.Len()
					}
				}
				time.Sleep(5 * interval)
				if n := rtcpSink.Len() - rtcpAfter; n > 0 {
					t.Fatalf("%s: %d RTCP writes happened after Close had returned (ops %v)", name, n, ops)
				}
				if !concurrent {
					now := 0
					for _, l := range locals {
						if l.sink != nil {
							now += l.sink.Len()
						}
					}
					if now != rtpAfter {
						t.Fatalf("%s: %d RTP writes happened after Close had returned (ops %v)", name, now-rtpAfter, ops)
					}
				}
				if left := kit.WaitGoroutines(base, 2*time.Second); left > base {
					t.Fatalf("%s: %d goroutines started by the interceptor are still running 2 s after Close returned (ops %v)\n%s", name, left-base, ops, goroutineDump())
				}
			},
		}
		// a stream bound while the RTCP writer refuses what the bind triggers (an immediate PLI, a first report), and removed again at once:
		// whatever the interceptor meant to retry must not outlive the stream
		actions["bindRemoteWhileWriterFailsThenUnbind"] = func(t *rapid.T) {
			if !writerBound || closed || m.Buffering {
				t.Skip("no writer / closed / single-stream member")
			}
			idx := rapid.IntRange(0, 2).Draw(t, "r")
			if remotes[idx].bound {
				t.Skip("bound")
			}
			n := rapid.IntRange(1, 2).Draw(t, "failures")
			trace.U(11).I(idx, n)
			logOp("next %d RTCP writes fail", n)
			left := int32(n) //nolint:gosec
			rtcpSink.SetFailIf(func(kit.SentRTCP) error {
				if atomic.AddInt32(&left, -1) >= 0 {
					return errRTCPWriter
				}

				return nil
			})
			forcedRemote = idx
			defer func() { forcedRemote = -1 }()
			// with the transport's delay suspended, whatever was decided before the Unbind is written within moments of it; the loop is not
			// held up in an earlier slow write (see lingering)
			rtcpSink.SetFast(true)
			defer rtcpSink.SetFast(false)
			time.Sleep(interval / 2) // lets a slow write that is already in progress finish
			actions["bindRemote"](t)
			if remotes[idx].bound {
				actions["unbindRemote"](t)
			}
			rtcpSink.SetFailIf(nil) // the writer works again; what it refused is history before the next action looks at reports
			time.Sleep(2 * interval)
		}
		actions["closeAgain"] = func(t *rapid.T) {
			if !closed {
				t.Skip("still open")
			}
			logOp("Close again")
			trace.U(10)
			before := rtcpSink.Len()
			guard("second Close", func() { _ = ic.Close() }) // a panic in it is recovered by the guard and reported
			if n := rtcpSink.Len() - before; n > 0 {
				t.Fatalf("%s: %d RTCP writes during a repeated Close (ops %v)", name, n, ops)
			}
		}
		actions["traffic2"], actions["traffic3"] = actions["traffic"], actions["traffic"]
		actions["bindLocal2"], actions["bindRemote2"] = actions["bindLocal"], actions["bindRemote"]
		t.Repeat(actions)
		if !closed {
			guard("Close (end of case)", func() { _ = ic.Close() })
			if left := kit.WaitGoroutines(base, 2*time.Second); left > base {
				t.Fatalf("%s: %d goroutines started by the interceptor are still running 2 s after Close returned (ops %v)\n%s", name, left-base, ops, goroutineDump())
			}
		}
		sort.Strings(ops)
		rec.Case(trace.Sum(), unbindThenTicks || closeInFlight, []string{"member=" + name, fmt.Sprintf("closeInFlight=%v", closeInFlight)}, func() any {
			return map[string]any{"member": name, "ops": strings.Join(ops, "; ")}
		})
	})
}
