package c05

import (
	"fmt"
	"sort"
	"sync"
	"sync/atomic"
	"testing"
	"time"

	"github.com/pion/interceptor"
	"github.com/pion/interceptor/pkg/twcc"
	"github.com/pion/interceptor/verifharness/kit"
	"github.com/pion/rtcp"
	"github.com/pion/rtp"
	"pgregory.net/rapid"
)

const e2eURI = "http://www.ietf.org/id/draft-holmer-rmcat-transport-wide-cc-extensions-01"

// fbSink records every feedback write with a logical stamp taken when the write begins: the report loop
// cannot take a packet between building a feedback and writing it, so a packet whose Read returned before
// that stamp was recorded before the feedback was built.
type fbSink struct {
	mu    sync.Mutex
	clock *atomic.Int64
	fbs   []writtenFb
}

type writtenFb struct {
	stamp int64
	at    time.Time
	raw   [][]byte
	errs  []error
}

func (s *fbSink) Write(pkts []rtcp.Packet, _ interceptor.Attributes) (int, error) {
	w := writtenFb{stamp: s.clock.Add(1), at: time.Now()}
	for _, p := range pkts {
		b, err := p.Marshal()
		w.raw = append(w.raw, b)
		w.errs = append(w.errs, err)
	}
	s.mu.Lock()
	s.fbs = append(s.fbs, w)
	s.mu.Unlock()

	return len(pkts), nil
}

func (s *fbSink) snapshot() []writtenFb {
	s.mu.Lock()
	defer s.mu.Unlock()

	return append([]writtenFb(nil), s.fbs...)
}

type e2eRead struct {
	seq          uint16
	before, done time.Time // wall clock around the Read call
	stamp        int64     // logical stamp after Read returned
}

// TestSenderInterceptorFeedback drives the real twcc.SenderInterceptor (real ticker, real clock) with generated
// reads on several streams that share one transport-wide counter and judges everything it writes:
// wire form from the bytes, no invented arrivals, arrival times bracketed by the wall-clock instants of the Read
// calls, "not received" only for numbers whose Read had not returned when the feedback was written, every number
// read reported as received by the time the interceptor has been idle for several intervals, counter +1 per packet.
// Cases last far less than the 500 ms history and never jump 2^15, so nothing may be forgotten.
func TestSenderInterceptorFeedback(t *testing.T) {
	rec := kit.NewRecorder("C05", "sender-interceptor-e2e",
		"twcc.SenderInterceptor with a 2..6 ms interval, 1..3 remote streams with the transport-cc extension (one counter shared) plus one stream without it; generated reads "+
			"(steps of 1..6 with loss, swaps, duplicates, packets without the extension, start anywhere incl. across the 2^16 wrap) with short real pauses; every written feedback is decoded "+
			"from its bytes; non-trivial = >= 2 feedback packets and (loss or reordering or a wrap); distinct by history")
	rapid.Check(t, func(t *rapid.T) {
		kit.Idle()
		interval := time.Duration(rapid.IntRange(2, 6).Draw(t, "intervalMs")) * time.Millisecond
		f, err := twcc.NewSenderInterceptor(twcc.SendInterval(interval), twcc.WithLoggerFactory(kit.QuietLoggers()))
		if err != nil {
			t.Fatalf("factory: %v", err)
		}
		t0Before := time.Now()
		ic, err := f.NewInterceptor("")
		t0After := time.Now()
		if err != nil {
			t.Fatalf("NewInterceptor: %v", err)
		}
		defer kit.BoundedClose(ic.Close)
		var clock atomic.Int64
		sink := &fbSink{clock: &clock}
		ic.BindRTCPWriter(sink)
		nStreams := rapid.IntRange(1, 3).Draw(t, "streams")
		extID := uint8(rapid.IntRange(1, 14).Draw(t, "extID")) //nolint:gosec
		type stream struct {
			ssrc uint32
			src  *kit.ByteSource
			r    interceptor.RTPReader
			seq  uint16
		}
		var streams []*stream
		for i := 0; i < nStreams; i++ {
			s := &stream{ssrc: uint32(0x1000 + i), src: &kit.ByteSource{}, seq: rapid.Uint16().Draw(t, "rtpSeq")} //nolint:gosec
			s.r = ic.BindRemoteStream(&interceptor.StreamInfo{SSRC: s.ssrc, RTPHeaderExtensions: []interceptor.RTPHeaderExtension{{URI: e2eURI, ID: int(extID)}}}, s.src)
			streams = append(streams, s)
		}
		plain := &stream{ssrc: 0x2000, src: &kit.ByteSource{}}
		plain.r = ic.BindRemoteStream(&interceptor.StreamInfo{SSRC: plain.ssrc}, plain.src)

		cursor := kit.U16Boundary().Draw(t, "twccStart")
		first := cursor
		var reads []e2eRead
		h := kit.NewH().I(int(interval), nStreams).U(uint64(cursor))
		lossSeen, reorderSeen, dupSeen := false, false, false
		readOne := func(s *stream, tw uint16, withExt bool) {
			hdr := rtp.Header{Version: 2, SSRC: s.ssrc, SequenceNumber: s.seq, PayloadType: 96}
			s.seq++
			if withExt {
				ext, _ := (rtp.TransportCCExtension{TransportSequence: tw}).Marshal()
				if err := hdr.SetExtension(extID, ext); err != nil {
					t.Fatalf("harness: %v", err)
				}
			}
			raw, _ := (&rtp.Packet{Header: hdr, Payload: []byte{1, 2, 3}}).Marshal()
			s.src.Push(raw)
			before := time.Now()
			var n int
			var rerr error
			if o := kit.Guard(0, func() { n, _, rerr = s.r.Read(kit.DirtyBuffer(1500), interceptor.Attributes{}) }); !o.OK() {
				t.Fatalf("Read: %s", o)
			}
			done := time.Now()
			if rerr != nil || n != len(raw) {
				t.Fatalf("Read returned n=%d err=%v for a %d-byte packet", n, rerr, len(raw))
			}
			if withExt {
				reads = append(reads, e2eRead{seq: tw, before: before, done: done, stamp: clock.Add(1)})
			}
		}
		n := rapid.IntRange(1, 60).Draw(t, "packets")
		var pendingSwap *uint16
		for i := 0; i < n; i++ {
			s := streams[rapid.IntRange(0, nStreams-1).Draw(t, "stream")]
			switch k := rapid.IntRange(0, 19).Draw(t, "kind"); {
			case k == 0: // a packet of a stream that did not negotiate the extension
				readOne(plain, 0, false)
				h.U(1)
			case k == 1: // negotiated stream, packet without the extension
				readOne(s, 0, false)
				h.U(2)
			case k == 2 && len(reads) > 0: // duplicate of an earlier number
				d := reads[rapid.IntRange(max(0, len(reads)-5), len(reads)-1).Draw(t, "dupOf")].seq
				readOne(s, d, true)
				dupSeen = true
				h.U(3, uint64(d))
			case k == 3 && pendingSwap == nil && len(reads) > 0: // hold this number back: it arrives after the next one (never before the very first: the unwrapper does not go below its first number, see C20)
				cursor++
				v := cursor
				pendingSwap = &v
			default:
				step := uint16(1)
				if rapid.IntRange(0, 4).Draw(t, "gap") == 0 {
					step = uint16(rapid.IntRange(2, 6).Draw(t, "lost")) //nolint:gosec
					lossSeen = true
				}
				cursor += step
				readOne(s, cursor, true)
				h.U(4, uint64(cursor))
				if pendingSwap != nil {
					readOne(s, *pendingSwap, true)
					h.U(5, uint64(*pendingSwap))
					pendingSwap = nil
					reorderSeen = true
				}
			}
			if rapid.IntRange(0, 5).Draw(t, "pause") == 0 {
				time.Sleep(time.Duration(rapid.IntRange(200, 3000).Draw(t, "pauseUs")) * time.Microsecond)
			}
		}
		if pendingSwap != nil {
			lossSeen = true // never delivered
		}
		// idle: every number read must be reported as received by some feedback; poll for exactly that (a fixed wait would turn
		// a late ticker on a loaded machine into a false alarm), then stay idle for two more intervals
		complete := func() bool {
			got := map[uint16]bool{}
			for _, w := range sink.snapshot() {
				for _, raw := range w.raw {
					d, derr := kit.DecodeTWCC(raw)
					if derr != nil {
						return true // judged below
					}
					for i := 0; i < int(d.Count); i++ {
						if d.Symbols[i] != 0 {
							got[d.Base+uint16(i)] = true //nolint:gosec
						}
					}
				}
			}
			for _, r := range reads {
				if !got[r.seq] {
					return false
				}
			}

			return true
		}
		settled := kit.Eventually(5*time.Second, complete)
		_ = settled // judged below, with the list of missing numbers
		time.Sleep(2 * interval)
		if o := kit.Guard(0, func() { _ = ic.Close() }); !o.OK() {
			t.Fatalf("Close: %s", o)
		}
		fbs := sink.snapshot()

		// ---- oracle ----
		byseq := map[uint16][]e2eRead{}
		for _, r := range reads {
			byseq[r.seq] = append(byseq[r.seq], r)
		}
		// the recorder may forget arrivals 500 ms older than a later one: a case stretched that far by a loaded machine cannot be judged for completeness
		mayForget := len(reads) > 0 && reads[len(reads)-1].done.Sub(reads[0].before) > 300*time.Millisecond
		span := int(cursor-first) + 1 // all numbers used lie in [first, cursor] (mod 2^16), span < 400
		inSpan := func(s uint16) bool { return int(s-first) < span }
		reportedReceived := map[uint16]bool{}
		var lastCount int = -1
		packets := 0
		var senderSSRC uint32
		for fi, w := range fbs {
			if len(w.raw) == 0 {
				t.Fatalf("feedback write %d carries no packets", fi)
			}
			var prevEnd *uint16
			for pi, raw := range w.raw {
				where := fmt.Sprintf("feedback write %d packet %d", fi, pi)
				if w.errs[pi] != nil {
					t.Fatalf("%s does not marshal: %v", where, w.errs[pi])
				}
				d, derr := kit.DecodeTWCC(raw)
				if derr != nil {
					t.Fatalf("%s: not a valid transport-cc feedback on the wire: %v (% x)", where, derr, raw)
				}
				var back rtcp.TransportLayerCC
				if uerr := back.Unmarshal(raw); uerr != nil {
					t.Fatalf("%s does not parse back: %v", where, uerr)
				}
				packets++
				if packets == 1 {
					senderSSRC = d.SenderSSRC
				} else if d.SenderSSRC != senderSSRC {
					t.Fatalf("%s: sender SSRC changed from %#x to %#x", where, senderSSRC, d.SenderSSRC)
				}
				if lastCount >= 0 && int(d.FbPktCount) != (lastCount+1)&0xff {
					t.Fatalf("%s: feedback packet counter %d after %d", where, d.FbPktCount, lastCount)
				}
				lastCount = int(d.FbPktCount)
				if d.Count == 0 {
					t.Fatalf("%s: status count 0", where)
				}
				if prevEnd != nil && d.Base != *prevEnd {
					t.Fatalf("%s: packets of one build must cover consecutive ranges: base %d after a packet ending before %d", where, d.Base, *prevEnd)
				}
				end := d.Base + d.Count
				prevEnd = &end
				knownMedia := d.MediaSSRC == plain.ssrc
				for _, s := range streams {
					knownMedia = knownMedia || d.MediaSSRC == s.ssrc
				}
				if !knownMedia || d.MediaSSRC == plain.ssrc {
					t.Fatalf("%s: media SSRC %#x is not one of the streams that carried transport-wide numbers", where, d.MediaSSRC)
				}
				// arrival times: reference time (64 ms units, 24 bit) plus the running sum of deltas
				at := int64(d.RefTime) * 64000
				di := 0
				for i := 0; i < int(d.Count); i++ {
					seq := d.Base + uint16(i) //nolint:gosec
					sym := d.Symbols[i]
					if sym == 0 {
						if !inSpan(seq) || mayForget {
							continue
						}
						for _, r := range byseq[seq] {
							if r.stamp < w.stamp {
								t.Fatalf("%s marks transport-wide number %d as not received, but a Read carrying it had returned before this feedback was written (read stamp %d < write stamp %d)",
									where, seq, r.stamp, w.stamp)
							}
						}

						continue
					}
					at += d.DeltasUS[di]
					di++
					rs := byseq[seq]
					if len(rs) == 0 || !inSpan(seq) {
						t.Fatalf("%s marks transport-wide number %d as received: no packet carrying it was ever read (numbers used: %d..%d)", where, seq, first, cursor)
					}
					// bracket: startTime is in [t0Before, t0After]; the arrival is taken inside the Read call
					lo := rs[0].before.Sub(t0After).Microseconds() - 250
					hi := rs[len(rs)-1].done.Sub(t0Before).Microseconds() + 250
					if at < lo || at > hi {
						t.Fatalf("%s reports transport-wide number %d as arrived %d us after the interceptor was created; the Read calls that carried it ran between %d and %d us",
							where, seq, at, lo+250, hi-250)
					}
					reportedReceived[seq] = true
				}
			}
		}
		var missing []int
		for s := range byseq {
			if !reportedReceived[s] {
				missing = append(missing, int(s))
			}
		}
		sort.Ints(missing)
		if len(missing) > 0 && !mayForget {
			t.Fatalf("transport-wide numbers %v were read (whole case %v long, interval %v) but no feedback written in the 5 s after the last read reports them as received (%d feedback packets in %d writes)",
				missing, time.Since(t0Before).Round(time.Millisecond), interval, packets, len(fbs))
		}
		if len(reads) == 0 && packets > 0 {
			t.Fatalf("%d feedback packets written although no packet carrying a transport-wide number was read", packets)
		}
		wrap := len(reads) > 0 && cursor < first
		var cl []string
		for name, on := range map[string]bool{"loss": lossSeen, "reordered": reorderSeen, "duplicate": dupSeen, "wrap": wrap, "no-twcc-packets": len(reads) == 0, "stretched-beyond-history(completeness not judged)": mayForget,
			">=2-feedback-packets": packets >= 2, "several-streams": nStreams > 1} {
			if on {
				cl = append(cl, name)
			}
		}
		sort.Strings(cl)
		rec.Case(h.Sum(), packets >= 2 && (lossSeen || reorderSeen || wrap), cl, func() any {
			return map[string]any{"interval_ms": interval.Milliseconds(), "streams": nStreams, "first": first, "last": cursor, "reads": len(reads), "feedback_packets": packets, "classes": cl}
		})
	})
}
