package c05

import (
	"fmt"
	"sort"
	"testing"

	"github.com/pion/interceptor/internal/sequencenumber"
	"github.com/pion/interceptor/pkg/twcc"
	"github.com/pion/interceptor/verifharness/kit"
	"github.com/pion/rtcp"
	"pgregory.net/rapid"
)

const (
	refRangeUS = int64(1) << 24 * 64000 // the 24-bit reference time wraps after this many microseconds
	historyUS  = 500_000
)

// possible is the may-model of one transport sequence number: the set of states the statement allows
// the recorder to be in. times lists the arrival times it may be holding; absent says "no recorded
// arrival (never seen, or legitimately forgotten)" is possible.
type possible struct {
	absent bool
	times  []int64
	// arrived since the previous build while definitely absent before (a first arrival that must be reported)
	mustReport bool
	// recorded and not yet covered by a build: "every packet recorded since the previous feedback is reported by the next one" has no
	// exception for age, so the 500 ms history rule can only take arrivals that a feedback has covered already
	unreported bool
}

type model struct {
	unwrap     sequencenumber.Unwrapper // verified separately and exhaustively by C20
	st         map[int64]*possible
	definite   map[int64]*possible // entries that certainly hold an arrival (the only ones a Record can change)
	newest     int64               // highest unwrapped number recorded so far
	any        bool
	sinceBuild map[int64]*possible
	fbCnt      int // next expected FbPktCount, -1 before the first packet
}

func (m *model) get(s int64) *possible {
	p, ok := m.st[s]
	if !ok {
		p = &possible{absent: true}
		m.st[s] = p
	}

	return p
}

func (m *model) record(seq uint16, t int64) int64 {
	s := m.unwrap.Unwrap(seq)
	if !m.any || s > m.newest {
		m.newest = s
		m.any = true
	}
	// what the statement allows to be forgotten: arrivals at least 500 ms older than a later recorded
	// arrival, and numbers more than 2^15-1 behind the newest one
	for u, p := range m.definite {
		if u < m.newest-32767 {
			p.absent = true
		}
		for _, pt := range p.times {
			if pt <= t-historyUS && !p.unreported {
				p.absent = true
			}
		}
		if p.absent {
			delete(m.definite, u)
		}
	}
	p := m.get(s)
	if m.sinceBuild == nil {
		m.sinceBuild = map[int64]*possible{}
	}
	m.sinceBuild[s] = p
	defer func() {
		if !p.absent && len(p.times) > 0 {
			m.definite[s] = p
		} else {
			delete(m.definite, s)
		}
	}()
	switch {
	case s < m.newest-32767:
		// too far behind: may or may not be stored
		p.times = append(p.times, t)
		p.absent = true
	case p.absent && len(p.times) == 0:
		p.absent = false
		p.times = []int64{t}
		p.mustReport = true
		p.unreported = true
	case p.absent:
		// it was possibly forgotten: if so this arrival is now the first one in the history
		p.times = append(p.times, t)
		p.absent = false
	default:
		// definitely present: the first arrival stays
	}
	// a definite state cannot be "must report" if it may have been dropped on arrival
	if p.absent {
		p.mustReport = false
		p.unreported = false
	}

	return s
}

func absMod(d int64) int64 {
	d %= refRangeUS
	if d < 0 {
		d += refRangeUS
	}
	if d > refRangeUS/2 {
		d = refRangeUS - d
	}

	return d
}

type step struct {
	Build bool   `json:"build,omitempty"`
	Seq   uint16 `json:"seq"`
	T     int64  `json:"t_us"`
}

// checkBuild applies the oracle to the packets of one BuildFeedbackPacket call.
func (m *model) checkBuild(pkts []rtcp.Packet) error {
	prevEnd := int64(-1 << 62)
	reported := map[int64]bool{}
	for pi, pkt := range pkts {
		fb, ok := pkt.(*rtcp.TransportLayerCC)
		if !ok {
			return fmt.Errorf("packet %d is a %T, not a TransportLayerCC", pi, pkt)
		}
		raw, err := fb.Marshal()
		if err != nil {
			return fmt.Errorf("packet %d does not marshal: %v", pi, err)
		}
		if len(raw) != 4*(int(fb.Header.Length)+1) {
			return fmt.Errorf("packet %d marshals to %d bytes but declares %d", pi, len(raw), 4*(int(fb.Header.Length)+1))
		}
		var back rtcp.TransportLayerCC
		if err := back.Unmarshal(raw); err != nil {
			return fmt.Errorf("packet %d does not parse back: %v", pi, err)
		}
		w, err := kit.DecodeTWCC(raw)
		if err != nil {
			return fmt.Errorf("packet %d: independent wire decoder rejects it: %v (bytes % x)", pi, err, raw)
		}
		if w.Base != fb.BaseSequenceNumber || w.Count != fb.PacketStatusCount || w.RefTime != fb.ReferenceTime&0xffffff ||
			w.FbPktCount != fb.FbPktCount || back.BaseSequenceNumber != w.Base || back.PacketStatusCount != w.Count ||
			back.ReferenceTime != w.RefTime || len(back.RecvDeltas) != len(w.DeltasUS) {
			return fmt.Errorf("packet %d: wire form disagrees with the packet fields: wire %+v vs struct base=%d count=%d ref=%d fb=%d; parsed-back deltas %d",
				pi, *w, fb.BaseSequenceNumber, fb.PacketStatusCount, fb.ReferenceTime, fb.FbPktCount, len(back.RecvDeltas))
		}
		for i, d := range back.RecvDeltas {
			if d.Delta != w.DeltasUS[i] {
				return fmt.Errorf("packet %d: delta %d parses back as %d, wire says %d", pi, i, d.Delta, w.DeltasUS[i])
			}
		}
		if len(w.Symbols) < int(w.Count) {
			return fmt.Errorf("packet %d: %d symbols for %d statuses", pi, len(w.Symbols), w.Count)
		}
		for i := int(w.Count); i < len(w.Symbols); i++ {
			if w.Symbols[i] != 0 {
				return fmt.Errorf("packet %d: padding symbol %d (past the status count %d) is %d, not 0", pi, i, w.Count, w.Symbols[i])
			}
		}
		if w.Count == 0 {
			return fmt.Errorf("packet %d has status count 0", pi)
		}
		// the packet counter increases by one per packet
		if m.fbCnt >= 0 && int(w.FbPktCount) != m.fbCnt {
			return fmt.Errorf("packet %d: feedback packet count %d, expected %d", pi, w.FbPktCount, m.fbCnt)
		}
		m.fbCnt = (int(w.FbPktCount) + 1) % 256
		// locate the base among the unwrapped numbers: the one congruent value in (newest-65536, newest]
		base := m.newest - ((m.newest-int64(w.Base))%65536+65536)%65536
		if base < prevEnd {
			return fmt.Errorf("packet %d: range starts at %d, before the end %d of the previous packet of this build (overlap / not increasing)", pi, base, prevEnd)
		}
		if prevEnd > -1<<61 {
			for s := prevEnd; s < base; s++ {
				if p, ok := m.st[s]; ok && !p.absent {
					return fmt.Errorf("packet %d starts at %d and skips number %d (after the previous packet's end %d) which has a recorded arrival", pi, base, s, prevEnd)
				}
			}
			// consecutive ranges: the next packet of a build starts where the previous one ended. Only a jump that a packet cannot
			// span (its first received number lies 2^15 - 2 or more beyond the previous end) may leave numbers out.
			if base != prevEnd {
				firstRx := int64(-1)
				for i := 0; i < int(w.Count); i++ {
					if w.Symbols[i] != 0 {
						firstRx = base + int64(i)

						break
					}
				}
				if firstRx < 0 || firstRx-prevEnd <= 0x7FFE {
					return fmt.Errorf("packet %d starts at %d, the previous packet of this build ended at %d: numbers %d..%d appear in neither (first received number of this packet: %d)",
						pi, base, prevEnd, prevEnd, base-1, firstRx)
				}
			}
		}
		t := int64(w.RefTime) * 64000
		di := 0
		for i := 0; i < int(w.Count); i++ {
			s := base + int64(i)
			p, known := m.st[s]
			if !known {
				if w.Symbols[i] == 0 {
					continue // never seen and reported not received
				}
				p = m.get(s)
			}
			switch w.Symbols[i] {
			case 0:
				delete(m.definite, s)
				if !p.absent {
					return fmt.Errorf("packet %d: number %d (wire %d) is marked not received but an arrival at %v us is recorded and still within the history", pi, s, uint16(s), p.times)
				}
				p.times, p.absent = nil, true
			case 1, 2:
				if w.Symbols[i] == 1 && (w.DeltasUS[di] < 0 || w.DeltasUS[di] > 255*250) {
					return fmt.Errorf("packet %d: small delta out of range", pi)
				}
				t += w.DeltasUS[di]
				di++
				var match *int64
				for k := range p.times {
					if absMod(t-p.times[k]) <= 125 {
						match = &p.times[k]

						break
					}
				}
				if match == nil {
					return fmt.Errorf("packet %d: number %d (wire %d) is reported received at %d us (mod 2^24*64ms); recorded arrivals it may refer to: %v (absent possible: %v)",
						pi, s, uint16(s), t%refRangeUS, p.times, p.absent)
				}
				p.times, p.absent = []int64{*match}, false
				m.definite[s] = p
				reported[s] = true
			}
		}
		if di != len(w.DeltasUS) {
			return fmt.Errorf("packet %d: %d deltas for %d received statuses", pi, len(w.DeltasUS), di)
		}
		prevEnd = base + int64(w.Count)
	}
	// every first arrival since the previous build that is certainly still held must have been reported
	var missing []int64
	for s, p := range m.sinceBuild {
		if p.mustReport && !p.absent && !reported[s] {
			missing = append(missing, s)
		}
		p.mustReport = false
		p.unreported = false
	}
	m.sinceBuild = map[int64]*possible{}
	if len(missing) > 0 {
		sort.Slice(missing, func(a, b int) bool { return missing[a] < missing[b] })

		return fmt.Errorf("arrivals recorded since the previous feedback are not reported by this one: numbers %v", missing[:min(len(missing), 10)])
	}

	return nil
}

func genSteps(t *rapid.T) []step {
	n := rapid.IntRange(1, 300).Draw(t, "n")
	seq := kit.U16Boundary().Draw(t, "startSeq")
	tm := rapid.OneOf(
		rapid.Int64Range(0, 2_000_000),
		rapid.Int64Range(0, 3*refRangeUS),
		rapid.Int64Range(refRangeUS-3_000_000, refRangeUS+1_000_000),
	).Draw(t, "startTime")
	dseq := rapid.OneOf(
		rapid.Just(1), rapid.Just(1), rapid.Just(1), rapid.Just(1),
		rapid.IntRange(2, 3), rapid.Just(0), rapid.IntRange(-50, -1), rapid.IntRange(10, 5000),
		rapid.SampledFrom([]int{20000, -20000, 32767, -32767, 40000, 8191, 8192, 8193, 32766, 0x7FFE + 1, 0x7FFE + 2}),
	)
	dt := rapid.OneOf(
		rapid.SampledFrom([]int64{0, 100, 125, 250, 1000, 5000, 63_750, 64_000, 100_000, 499_999, 500_000, 600_000, 8_191_750, 8_192_000, 9_000_000, 180_000_000}),
		rapid.SampledFrom([]int64{250, 250, 1000, 1000, 5000}),
		rapid.Int64Range(0, 20_000),
		rapid.Int64Range(-700_000, -1),
	)
	var steps []step
	for i := 0; i < n; i++ {
		if rapid.IntRange(0, 14).Draw(t, "build") == 0 {
			steps = append(steps, step{Build: true})

			continue
		}
		seq += uint16(dseq.Draw(t, "dseq")) //nolint:gosec
		tm += dt.Draw(t, "dt")
		if tm < 0 {
			tm = 0
		}
		steps = append(steps, step{Seq: seq, T: tm})
	}
	steps = append(steps, step{Build: true})

	return steps
}

func runSteps(steps []step) (err error, builds int, classes map[string]bool) {
	r := twcc.NewRecorder(0xCAFE)
	m := &model{st: map[int64]*possible{}, definite: map[int64]*possible{}, fbCnt: -1}
	classes = map[string]bool{}
	var lastS int64
	var lastT int64
	haveLast := false
	sinceBuild := map[int64]bool{}
	packets := 0
	for i, st := range steps {
		if st.Build {
			var pkts []rtcp.Packet
			o := kit.Guard(0, func() { pkts = r.BuildFeedbackPacket() })
			if !o.OK() {
				return fmt.Errorf("step %d BuildFeedbackPacket: %s", i, o), builds, classes
			}
			builds++
			if len(pkts) > 1 {
				classes["multi-packet-build"] = true
			}
			packets += len(pkts)
			if e := m.checkBuild(pkts); e != nil {
				return fmt.Errorf("step %d (build #%d, %d packets): %w", i, builds, len(pkts), e), builds, classes
			}
			sinceBuild = map[int64]bool{}

			continue
		}
		o := kit.Guard(0, func() { r.Record(0x1234, st.Seq, st.T) })
		if !o.OK() {
			return fmt.Errorf("step %d Record(%d, %d): %s", i, st.Seq, st.T, o), builds, classes
		}
		s := m.record(st.Seq, st.T)
		if haveLast {
			switch {
			case s > lastS+1:
				classes["loss-burst"] = true
			case s < lastS && !sinceBuild[s] && builds > 0:
				classes["reorder-across-build"] = true
			case s < lastS:
				classes["reorder"] = true
			case s == lastS:
				classes["duplicate"] = true
			}
			d := st.T - lastT
			if d > 8_191_750 || d < -8_192_000 {
				classes["delta-overflow"] = true
			}
			if d < 0 {
				classes["negative-delta"] = true
			}
			if d >= historyUS {
				classes["beyond-history-gap"] = true
			}
		}
		sinceBuild[s] = true
		lastS, lastT, haveLast = s, st.T, true
	}

	return nil, builds, classes
}

func TestRecorderFeedback(t *testing.T) {
	rec := kit.NewRecorder("C05", "recorder-may-model",
		"random (transport sequence number, arrival time) histories (<= 300 steps; steps +1/gaps/duplicates/reordering/jumps up to and beyond 2^15; "+
			"time steps 0..minutes incl. negative) interleaved with BuildFeedbackPacket, judged by a possible-state model and an independent wire decoder; "+
			"non-trivial = >= 2 builds and (loss burst, reordering across a build, or a delta overflow); distinct by history")
	rapid.Check(t, func(t *rapid.T) {
		steps := genSteps(t)
		err, builds, classes := runSteps(steps)
		if err != nil {
			t.Fatalf("%v", err)
		}
		h := kit.NewH()
		for _, s := range steps {
			if s.Build {
				h.U(1)
			} else {
				h.U(uint64(s.Seq), uint64(s.T))
			}
		}
		var cl []string
		for c := range classes {
			cl = append(cl, c)
		}
		sort.Strings(cl)
		nt := builds >= 2 && (classes["loss-burst"] || classes["reorder-across-build"] || classes["delta-overflow"])
		rec.Case(h.Sum(), nt, cl, func() any {
			return map[string]any{"steps": steps[:min(len(steps), 60)], "total_steps": len(steps), "builds": builds, "classes": cl}
		})
	})
}
