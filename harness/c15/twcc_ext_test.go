package c15

import (
	"bytes"
	"errors"
	"fmt"
	"runtime"
	"sync"
	"testing"

	"github.com/pion/interceptor"
	"github.com/pion/interceptor/pkg/twcc"
	"github.com/pion/interceptor/verifharness/kit"
	"github.com/pion/rtp"
	"pgregory.net/rapid"
)

const transportCCURI = "http://www.ietf.org/id/draft-holmer-rmcat-transport-wide-cc-extensions-01"

type seen struct {
	writer int
	order  int
	number uint16
}

// recordingWriter checks each packet against the original the writer goroutine announced, and collects numbers.
type recordingWriter struct {
	mu     sync.Mutex
	extID  uint8
	seen   []seen
	plain  int
	errors []string
	// failEvery > 0: the transport refuses the packets whose number is congruent failEvery-1 (after recording them)
	failEvery int
}

type sendCtx struct {
	writer, order int
	orig          rtp.Header
	payload       []byte
}

func (r *recordingWriter) Write(h *rtp.Header, p []byte, a interceptor.Attributes) (int, error) {
	ctx, _ := a.Get("ctx").(*sendCtx)
	fail := func(f string, args ...any) {
		r.mu.Lock()
		if len(r.errors) < 5 {
			r.errors = append(r.errors, fmt.Sprintf(f, args...))
		}
		r.mu.Unlock()
	}
	if ctx == nil {
		fail("attributes were not passed through")

		return 0, nil
	}
	if r.extID == 0 { // stream did not negotiate transport-cc: passed through untouched
		if !kit.HeaderEqual(h, &ctx.orig) || !bytes.Equal(p, ctx.payload) {
			fail("writer %d packet %d on a stream that did not negotiate transport-cc was modified: got %+v, sent %+v", ctx.writer, ctx.order, *h, ctx.orig)
		}
		r.mu.Lock()
		r.plain++
		r.mu.Unlock()

		return len(p), nil
	}
	ext := h.GetExtension(r.extID)
	if len(ext) != 2 {
		fail("writer %d packet %d: transport-cc extension (id %d) has %d bytes, want 2", ctx.writer, ctx.order, r.extID, len(ext))

		return 0, nil
	}
	var tcc rtp.TransportCCExtension
	if err := tcc.Unmarshal(ext); err != nil {
		fail("writer %d packet %d: extension does not parse: %v", ctx.writer, ctx.order, err)

		return 0, nil
	}
	// everything else unchanged
	o := &ctx.orig
	if h.Version != o.Version || h.Padding != o.Padding || h.PaddingSize != o.PaddingSize || h.Marker != o.Marker || h.PayloadType != o.PayloadType ||
		h.SequenceNumber != o.SequenceNumber || h.Timestamp != o.Timestamp || h.SSRC != o.SSRC || fmt.Sprint(h.CSRC) != fmt.Sprint(o.CSRC) {
		fail("writer %d packet %d: fixed header fields changed: got %+v, sent %+v", ctx.writer, ctx.order, *h, *o)
	}
	if !bytes.Equal(p, ctx.payload) {
		fail("writer %d packet %d: payload changed", ctx.writer, ctx.order)
	}
	for _, id := range o.GetExtensionIDs() {
		if id == r.extID {
			continue
		}
		if !bytes.Equal(h.GetExtension(id), o.GetExtension(id)) {
			fail("writer %d packet %d: pre-existing extension %d changed", ctx.writer, ctx.order, id)
		}
	}
	for _, id := range h.GetExtensionIDs() {
		if id != r.extID && o.GetExtension(id) == nil {
			fail("writer %d packet %d: unexpected extension %d added", ctx.writer, ctx.order, id)
		}
	}
	if o.Extension && h.ExtensionProfile != o.ExtensionProfile {
		fail("writer %d packet %d: extension profile changed %#x -> %#x", ctx.writer, ctx.order, o.ExtensionProfile, h.ExtensionProfile)
	}
	r.mu.Lock()
	r.seen = append(r.seen, seen{writer: ctx.writer, order: ctx.order, number: tcc.TransportSequence})
	r.mu.Unlock()
	if r.failEvery > 0 && int(tcc.TransportSequence)%r.failEvery == r.failEvery-1 {
		return 0, errTransportDown // the packet has its number all the same: numbers stay unique and gap-free at this writer
	}

	return len(p), nil
}

var errTransportDown = errors.New("injected transport error")

func TestTransportWideNumbersGapFree(t *testing.T) {
	rec := kit.NewRecorder("C15", "concurrent-writers",
		"one HeaderExtensionInterceptor, 1..4 streams (negotiated with ids 1..14 or not negotiated), 1..8 writer goroutines, headers without extension / one-byte / two-byte "+
			"profile with pre-existing extensions (also one using the negotiated id); > 2^16 packets per case; non-trivial = >= 2 writers on >= 2 negotiated streams crossing the 2^16 wrap; distinct by configuration")
	rapid.Check(t, func(t *rapid.T) {
		f, _ := twcc.NewHeaderExtensionInterceptor()
		ic, err := f.NewInterceptor("")
		if err != nil {
			t.Fatalf("NewInterceptor: %v", err)
		}
		nStreams := rapid.IntRange(1, 4).Draw(t, "streams")
		nWriters := rapid.OneOf(rapid.Just(1), rapid.IntRange(1, 8), rapid.IntRange(2, 8)).Draw(t, "writers")
		wantNumbered := rapid.SampledFrom([]int{66000, 70000, 131200}).Draw(t, "numbered")
		type stream struct {
			negotiated bool
			id         uint8
			sink       *recordingWriter
			w          interceptor.RTPWriter
		}
		streams := make([]*stream, nStreams)
		negotiatedStreams := 0
		for i := range streams {
			s := &stream{negotiated: i == 0 || rapid.IntRange(0, 3).Draw(t, "negotiated") != 0}
			info := &interceptor.StreamInfo{SSRC: uint32(10 + i)} //nolint:gosec
			if s.negotiated {
				negotiatedStreams++
				s.id = uint8(rapid.IntRange(1, 14).Draw(t, "extID")) //nolint:gosec
				info.RTPHeaderExtensions = []interceptor.RTPHeaderExtension{{URI: "urn:other", ID: 15}, {URI: transportCCURI, ID: int(s.id)}}
				s.sink = &recordingWriter{extID: s.id, failEvery: rapid.SampledFrom([]int{0, 0, 2, 7, 97}).Draw(t, "failEvery")}
				var earlier *interceptor.StreamInfo
				if rapid.IntRange(0, 2).Draw(t, "boundBefore") == 0 {
					// a renegotiation: the stream had an earlier binding (same SSRC, its own StreamInfo) which is removed after the new one
					// was made; the live binding keeps its extension
					earlier = &interceptor.StreamInfo{SSRC: info.SSRC, RTPHeaderExtensions: info.RTPHeaderExtensions}
					_ = ic.BindLocalStream(earlier, &recordingWriter{extID: s.id})
				}
				s.w = ic.BindLocalStream(info, s.sink)
				if earlier != nil {
					ic.UnbindLocalStream(earlier)
				}
			} else {
				info.RTPHeaderExtensions = []interceptor.RTPHeaderExtension{{URI: "urn:other", ID: 3}}
				if rapid.Bool().Draw(t, "noExtensionsAtAll") {
					info.RTPHeaderExtensions = nil // nothing negotiated at all (an RTX or FEC repair stream)
				}
				s.sink = &recordingWriter{}
				s.w = ic.BindLocalStream(info, s.sink)
			}
			streams[i] = s
		}
		// a second interceptor built by the same factory (another peer connection) sends at the same time: the run of numbers belongs to
		// one interceptor instance, whatever its siblings do
		var sibling interceptor.RTPWriter
		siblingSink := &recordingWriter{extID: 7}
		if rapid.IntRange(0, 2).Draw(t, "siblingInstance") == 0 {
			ic2, err := f.NewInterceptor("other")
			if err != nil {
				t.Fatalf("NewInterceptor (second instance): %v", err)
			}
			defer kit.BoundedClose(ic2.Close)
			sibling = ic2.BindLocalStream(&interceptor.StreamInfo{SSRC: 999, RTPHeaderExtensions: []interceptor.RTPHeaderExtension{{URI: transportCCURI, ID: 7}}}, siblingSink)
		}
		// per-writer plans are fixed before the goroutines start (all randomness from rapid)
		shapeSeed := rapid.Uint64().Draw(t, "shapeSeed")
		// packets are spread evenly over the streams: send enough that the negotiated ones cross the 2^16 wrap
		total := (wantNumbered*nStreams + negotiatedStreams - 1) / negotiatedStreams * 21 / 20
		per := total / nWriters
		var wg sync.WaitGroup
		for w := 0; w < nWriters; w++ {
			wg.Add(1)
			go func(w int) {
				defer wg.Done()
				x := shapeSeed + uint64(w)*0x9E3779B97F4A7C15 | 1
				for k := 0; k < per; k++ {
					x ^= x << 13
					x ^= x >> 7
					x ^= x << 17
					s := streams[int(x>>8)%nStreams]
					h := rtp.Header{Version: 2, SSRC: uint32(10 + int(x>>8)%nStreams), SequenceNumber: uint16(k), Timestamp: uint32(x >> 20), Marker: x&1 == 0, PayloadType: uint8(x>>3) & 0x7f} //nolint:gosec
					switch (x >> 16) % 4 {
					case 1: // one-byte profile with other extensions, sometimes one already using the negotiated id
						_ = h.SetExtension(uint8(1+(x>>24)%14), []byte{byte(x), byte(x >> 8), byte(x >> 16)}) //nolint:gosec
						if s.negotiated && (x>>30)%3 == 0 {
							_ = h.SetExtension(s.id, []byte{0xAA, 0xBB})
						}
					case 2: // two-byte profile
						h.Extension, h.ExtensionProfile = true, rtp.ExtensionProfileTwoByte
						_ = h.SetExtension(uint8(1+(x>>24)%200), kit.FillBytes(int((x>>32)%20), x)) //nolint:gosec
					case 3:
						h.CSRC = []uint32{uint32(x), uint32(x >> 32)} //nolint:gosec
					}
					payload := []byte{byte(k), byte(k >> 8), byte(w)}
					ctx := &sendCtx{writer: w, order: k, orig: h.Clone(), payload: payload}
					if _, err := s.w.Write(&h, payload, interceptor.Attributes{"ctx": ctx}); err != nil && !errors.Is(err, errTransportDown) {
						s.sink.mu.Lock()
						s.sink.errors = append(s.sink.errors, fmt.Sprintf("writer %d packet %d: Write failed: %v", w, k, err))
						s.sink.mu.Unlock()
					}
				}
			}(w)
		}
		if sibling != nil {
			wg.Add(1)
			go func() {
				defer wg.Done()
				for k := 0; k < 3000; k++ {
					h := rtp.Header{Version: 2, SSRC: 999, SequenceNumber: uint16(k)} //nolint:gosec
					payload := []byte{byte(k)}
					_, _ = sibling.Write(&h, payload, interceptor.Attributes{"ctx": &sendCtx{writer: 0, order: k, orig: h.Clone(), payload: payload}})
					if k%16 == 0 {
						runtime.Gosched()
					}
				}
			}()
		}
		if o := kit.Guard(0, wg.Wait); !o.OK() {
			t.Fatalf("writers did not finish: %s", o)
		}
		if len(siblingSink.errors) > 0 {
			t.Fatalf("second instance of the factory: %s", siblingSink.errors[0])
		}
		_ = ic.Close()
		counts := make([]int, 65536)
		n := 0
		lastPerWriter := map[int]seen{}
		for _, s := range streams {
			if !s.negotiated {
				continue
			}
			if len(s.sink.errors) > 0 {
				t.Fatalf("%s", s.sink.errors[0])
			}
			for _, e := range s.sink.seen {
				counts[e.number]++
				n++
			}
		}
		// per writer goroutine the numbers increase (serial arithmetic), across all its streams
		perWriter := make([][]seen, nWriters)
		for _, s := range streams {
			if s.negotiated {
				for _, e := range s.sink.seen {
					perWriter[e.writer] = append(perWriter[e.writer], e)
				}
			}
		}
		for _, l := range perWriter {
			byOrder := map[int]uint16{}
			for _, e := range l {
				byOrder[e.order] = e.number
			}
			prevSet := false
			var prev uint16
			for k := 0; k < per; k++ {
				num, ok := byOrder[k]
				if !ok {
					continue
				}
				// (with several writers nothing is asserted about the distance between two numbers of one writer: the others may
				// allocate any amount in between when this one is descheduled - more than 2^15 was observed on a loaded machine;
				// uniqueness and gap-freedom are decided on the multiset below)
				if prevSet && nWriters == 1 && num != prev+1 {
					t.Fatalf("single writer: packet %d got number %d after number %d: not consecutive", k, num, prev)
				}
				prev, prevSet = num, true
			}
		}
		_ = lastPerWriter
		// one run of consecutive values mod 2^16: each residue floor(n/65536) or ceil times, the extra ones contiguous
		q, r := n/65536, n%65536
		extra := 0
		firstExtra := -1
		for v, c := range counts {
			switch c {
			case q:
			case q + 1:
				extra++
				if firstExtra < 0 || counts[(v+65535)%65536] != q+1 {
					if counts[(v+65535)%65536] != q+1 {
						firstExtra = v
					}
				}
			default:
				t.Fatalf("%d numbered packets: number %d was assigned %d times, want %d or %d (gap or duplicate)", n, v, c, q, q+1)
			}
		}
		if extra != r {
			t.Fatalf("%d numbered packets: %d numbers were used %d times, want %d", n, extra, q+1, r)
		}
		if r > 0 && firstExtra >= 0 {
			for k := 0; k < r; k++ {
				if counts[(firstExtra+k)%65536] != q+1 {
					t.Fatalf("the numbers used once more than the others do not form one consecutive run (starting at %d, broken at +%d)", firstExtra, k)
				}
			}
		}
		for _, s := range streams {
			if !s.negotiated && len(s.sink.errors) > 0 {
				t.Fatalf("%s", s.sink.errors[0])
			}
		}
		rec.Case(kit.NewH().I(nStreams, nWriters, total).U(shapeSeed).Sum(), nWriters >= 2 && negotiatedStreams >= 2 && n > 65536,
			[]string{fmt.Sprintf("writers=%d", nWriters), fmt.Sprintf("negotiated=%d", negotiatedStreams)}, func() any {
				return map[string]any{"streams": nStreams, "negotiated_streams": negotiatedStreams, "writers": nWriters, "numbered_packets": n, "first_number_of_last_partial_cycle": firstExtra}
			})
	})
}
