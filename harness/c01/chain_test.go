package c01

import (
	"bytes"
	"errors"
	"fmt"
	"io"
	"reflect"
	"sort"
	"strings"
	"sync"
	"testing"
	"time"

	"github.com/pion/interceptor"
	"github.com/pion/interceptor/verifharness/kit"
	"github.com/pion/rtcp"
	"github.com/pion/rtp"
	"pgregory.net/rapid"
)

var errSharedClose = errors.New("shared close sentinel")

// spy is a chain member of our own: it counts lifecycle calls and can fail Close.
type spy struct {
	interceptor.NoOp
	mu           sync.Mutex
	unbindLocal  map[uint32]int
	unbindRemote map[uint32]int
	closes       int
	closeErr     error
}

func (s *spy) UnbindLocalStream(i *interceptor.StreamInfo) {
	s.mu.Lock()
	s.unbindLocal[i.SSRC]++
	s.mu.Unlock()
}

func (s *spy) UnbindRemoteStream(i *interceptor.StreamInfo) {
	s.mu.Lock()
	s.unbindRemote[i.SSRC]++
	s.mu.Unlock()
}

func (s *spy) Close() error {
	s.mu.Lock()
	s.closes++
	s.mu.Unlock()

	return s.closeErr
}

type spyFactory struct{ s *spy }

func (f spyFactory) NewInterceptor(string) (interceptor.Interceptor, error) { return f.s, nil }

// nestedFactory builds a Chain of spies that becomes one member of the outer chain (an application grouping its own interceptors).
type nestedFactory struct{ inner []*spy }

func (f nestedFactory) NewInterceptor(string) (interceptor.Interceptor, error) {
	ics := make([]interceptor.Interceptor, len(f.inner))
	for i, s := range f.inner {
		ics[i] = s
	}

	return interceptor.NewChain(ics), nil
}

type failingSource struct {
	kit.ByteSource
	mu   sync.Mutex
	fail map[int]failure // read index -> what to do
	n    int
}

type failure struct {
	err   error
	bytes []byte // left in the caller's buffer although the read fails
}

func (f *failingSource) Read(b []byte, a interceptor.Attributes) (int, interceptor.Attributes, error) {
	f.mu.Lock()
	idx := f.n
	f.n++
	fl, bad := f.fail[idx]
	f.mu.Unlock()
	if bad {
		n := copy(b, fl.bytes)

		return n, a, fl.err
	}

	return f.ByteSource.Read(b, a)
}

// equalModuloTWCC: identical header fields; only the negotiated transport-cc extension may have been added or replaced.
func equalModuloTWCC(got, want *rtp.Header, twccID uint8, mayAdd bool) string {
	if got.Version != want.Version || got.Padding != want.Padding || got.PaddingSize != want.PaddingSize || got.Marker != want.Marker || got.PayloadType != want.PayloadType ||
		got.SequenceNumber != want.SequenceNumber || got.Timestamp != want.Timestamp || got.SSRC != want.SSRC || !reflect.DeepEqual(append([]uint32{}, got.CSRC...), append([]uint32{}, want.CSRC...)) {
		return fmt.Sprintf("fixed header fields differ: got %+v, sent %+v", *got, *want)
	}
	ids := map[uint8]bool{}
	for _, id := range want.GetExtensionIDs() {
		ids[id] = true
		if id == twccID && mayAdd {
			continue
		}
		if !bytes.Equal(got.GetExtension(id), want.GetExtension(id)) {
			return fmt.Sprintf("extension %d differs", id)
		}
	}
	for _, id := range got.GetExtensionIDs() {
		if !ids[id] && !(id == twccID && mayAdd) {
			return fmt.Sprintf("extension %d was added", id)
		}
	}
	if want.Extension && got.ExtensionProfile != want.ExtensionProfile {
		return fmt.Sprintf("extension profile changed %#x -> %#x", want.ExtensionProfile, got.ExtensionProfile)
	}
	if !want.Extension && got.Extension && !mayAdd {
		return "an extension header was added"
	}

	return ""
}

var errWrite, errRead, errRTCPWrite, errRTCPRead = errors.New("injected RTP write error"), errors.New("injected RTP read error"), errors.New("injected RTCP write error"), errors.New("injected RTCP read error")

type localStream struct {
	info     *interceptor.StreamInfo
	sink     *kit.RTPSink
	w        interceptor.RTPWriter
	seq      uint16
	twcc     uint16
	history  []kit.SentRTP // application packets as they reached the sink
	writeIdx int
}

type remoteStream struct {
	info    *interceptor.StreamInfo
	src     *failingSource
	r       interceptor.RTPReader
	seq     uint16
	twcc    uint16
	markers []uint16 // sequence numbers of packets whose read failed
	twMarks []uint16
	reads   int
}

func TestChainTransparency(t *testing.T) {
	rec := kit.NewRecorder("C01", "chain-transparency",
		"chains of 0..6 members (orderings, subsets and repeats of the 16 non-buffering interceptor factories, built through Registry.Build, with lifecycle spies interleaved), 1-2 local and "+
			"1-2 remote streams with generated StreamInfo (RTX, FEC, transport-cc id 1..14 or absent), <= 40 operations: write/read RTP (all header shapes, payload 0..1460) and RTCP compounds "+
			"with the innermost reader/writer failing at generated points; then Unbind and Close; non-trivial = chain length >= 2 and a packet with CSRC/extension/padding or an injected fault; distinct by chain and operations")
	rapid.Check(t, func(t *rapid.T) {
		kit.Idle()
		interval := time.Duration(rapid.IntRange(1, 2).Draw(t, "intervalMS")) * time.Millisecond
		nMembers := rapid.IntRange(0, 6).Draw(t, "members")
		var names []string
		reg := &interceptor.Registry{}
		var spies []*spy
		var nestInto *[]*spy
		addSpy := func() {
			s := &spy{unbindLocal: map[uint32]int{}, unbindRemote: map[uint32]int{}}
			// Close errors of different members may be related (the same sentinel, or one wrapping another's): each must still be preserved
			switch rapid.IntRange(0, 5).Draw(t, "spyFails") {
			case 0, 1:
				s.closeErr = fmt.Errorf("spy %d close error", len(spies))
			case 2:
				s.closeErr = errSharedClose
			case 3:
				s.closeErr = fmt.Errorf("spy %d: %w", len(spies), errSharedClose)
			}
			spies = append(spies, s)
			if nestInto != nil {
				*nestInto = append(*nestInto, s)

				return
			}
			reg.Add(spyFactory{s})
			names = append(names, "spy")
		}
		// a chain as a member of the chain: its members are members like any other (every lifecycle call once, every Close error kept)
		addNested := func() {
			var inner []*spy
			nestInto = &inner
			for i, n := 0, rapid.IntRange(1, 4).Draw(t, "nestedSpies"); i < n; i++ {
				addSpy()
			}
			nestInto = nil
			reg.Add(nestedFactory{inner})
			names = append(names, fmt.Sprintf("chain-of-%d-spies", len(inner)))
		}
		hasHeaderExt, hasResponder := false, false
		for i := 0; i < nMembers; i++ {
			switch rapid.IntRange(0, 7).Draw(t, "spyHere") {
			case 0, 1:
				addSpy()
			case 2:
				addNested()
			}
			n := rapid.SampledFrom(kit.PassThroughNames).Draw(t, "member")
			names = append(names, n)
			reg.Add(kit.NewMember(n, interval).Factory)
			hasHeaderExt = hasHeaderExt || n == "twcc-header-extension"
			hasResponder = hasResponder || strings.HasPrefix(n, "nack-responder")
		}
		if rapid.Bool().Draw(t, "spyLast") {
			addSpy()
		}
		chain, err := reg.Build("c01")
		if err != nil {
			t.Fatalf("Registry.Build(%v): %v", names, err)
		}
		closed := false
		defer func() {
			if !closed {
				kit.BoundedClose(chain.Close)
			}
		}()
		twccID := rapid.SampledFrom([]int{0, 0, 1, 5, 14}).Draw(t, "twccID")
		rtcpSink := &kit.RTCPSink{FailAt: map[int]error{}}
		rtcpW := chain.BindRTCPWriter(rtcpSink)
		rtcpSrc := &failingSource{fail: map[int]failure{}}
		rtcpR := chain.BindRTCPReader(rtcpSrc)
		var locals []*localStream
		var remotes []*remoteStream
		var shadows []*kit.RTPSink
		for i, n := 0, rapid.IntRange(1, 2).Draw(t, "locals"); i < n; i++ {
			l := &localStream{info: kit.LocalInfo(uint32(0x100+i), twccID, rapid.Bool().Draw(t, "rtx"), rapid.Bool().Draw(t, "fec")), sink: &kit.RTPSink{FailAt: map[int]error{}}, //nolint:gosec
				seq: kit.U16Boundary().Draw(t, "lseq"), twcc: rapid.Uint16().Draw(t, "ltw")}
			if rapid.IntRange(0, 5).Draw(t, "boundBefore") == 0 {
				// the stream had been bound before with another next writer (a renegotiation without Unbind): what the application writes
				// through the writer of the second Bind goes to the second Bind's next writer only
				shadow := &kit.RTPSink{}
				_ = chain.BindLocalStream(l.info, shadow)
				shadows = append(shadows, shadow)
			}
			l.w = chain.BindLocalStream(l.info, l.sink)
			locals = append(locals, l)
		}
		for i, n := 0, rapid.IntRange(1, 2).Draw(t, "remotes"); i < n; i++ {
			r := &remoteStream{info: kit.RemoteInfo(uint32(0x200+i), twccID), src: &failingSource{fail: map[int]failure{}}, seq: kit.U16Boundary().Draw(t, "rseq"), twcc: rapid.Uint16().Draw(t, "rtw")} //nolint:gosec
			r.r = chain.BindRemoteStream(r.info, r.src)
			remotes = append(remotes, r)
		}
		base := kit.StableGoroutines()
		// transport-wide numbers come from one counter per direction, as the extension defines
		twOut, twIn := rapid.Uint16().Draw(t, "twOut"), rapid.Uint16().Draw(t, "twIn")
		hasCC := false
		for _, n := range names {
			hasCC = hasCC || strings.HasPrefix(n, "cc-")
		}
		h := kit.NewH().S(strings.Join(names, ","))
		richPacket, faults := false, 0
		appRTCP := 0
		var expectRTCP [][]rtcp.Packet
		where := fmt.Sprintf("chain %v (twcc id %d)", names, twccID)
		genHeader := func(t *rapid.T, ssrc uint32, seq uint16, twcc uint16) rtp.Header {
			shape := kit.HeaderShape{}
			hdr := kit.GenHeader(t, "h", shape)
			if hdr.ExtensionProfile == rtp.ExtensionProfileTwoByte && twccID > 0 {
				hdr.Extension, hdr.ExtensionProfile, hdr.Extensions = false, 0, nil // keep the negotiated id encodable in either profile
			}
			hdr.SSRC, hdr.SequenceNumber, hdr.PayloadType = ssrc, seq, 96
			hdr.Timestamp = uint32(seq) * 3000
			if twccID > 0 { // the application (or an earlier stage) supplies the extension; the header-extension interceptor may replace it
				_ = hdr.DelExtension(uint8(twccID))          //nolint:gosec
				hdr = kit.WithTWCC(hdr, uint8(twccID), twcc) //nolint:gosec
			}
			if len(hdr.CSRC) > 0 || hdr.Padding || len(hdr.GetExtensionIDs()) > 1 {
				richPacket = true
			}

			return hdr
		}
		writeRTP := func(t *rapid.T) {
			l := locals[rapid.IntRange(0, len(locals)-1).Draw(t, "l")]
			l.seq++
			twOut++
			l.twcc = twOut
			hdr := genHeader(t, l.info.SSRC, l.seq, l.twcc)
			payload := kit.Payload(t, "p", 1460)
			orig := hdr.Clone()
			origPayload := append([]byte(nil), payload...)
			before := l.sink.Len()
			fail := rapid.IntRange(0, 11).Draw(t, "failWrite") == 0
			if fail {
				l.sink.FailAt[before] = errWrite
				faults++
			}
			h.U(1, uint64(l.info.SSRC), uint64(l.seq)).I(len(payload))
			n, werr := l.w.Write(&hdr, payload, interceptor.Attributes{})
			calls := l.sink.Calls()[before:]
			if len(calls) == 0 {
				t.Fatalf("%s: application packet seq %d on ssrc %#x never reached the next writer (Write returned n=%d err=%v)", where, l.seq, l.info.SSRC, n, werr)
			}
			// Retransmissions run in their own goroutines and may land anywhere; FEC is only ever produced inside a write.
			// The application packet must be among the calls exactly once, unmodified, and no FEC packet may precede it.
			var first kit.SentRTP
			found := 0
			for ci, c := range calls {
				isApp := c.Header.SSRC == l.info.SSRC && c.Header.SequenceNumber == l.seq && equalModuloTWCC(&c.Header, &orig, uint8(twccID), hasHeaderExt && twccID > 0) == "" && bytes.Equal(c.Payload, origPayload) //nolint:gosec
				if isApp {
					found++
					first = c
					if found == 1 && ci != 0 {
						// the armed failure is the next call of the sink: an asynchronous retransmission got there first, so it was that
						// one the transport refused, not the application's packet
						fail = false
					}

					continue
				}
				if !injected(l, c) {
					if c.Header.SSRC == l.info.SSRC && c.Header.SequenceNumber == l.seq {
						t.Fatalf("%s: application packet seq %d reached the next writer altered: %s (payload %d -> %d bytes)", where, l.seq,
							equalModuloTWCC(&c.Header, &orig, uint8(twccID), hasHeaderExt && twccID > 0), len(origPayload), len(c.Payload)) //nolint:gosec
					}
					t.Fatalf("%s: during application write seq %d an unexpected packet was written: ssrc %#x seq %d pt %d", where, l.seq, c.Header.SSRC, c.Header.SequenceNumber, c.Header.PayloadType)
				}
				if found == 0 && l.info.SSRCForwardErrorCorrection != 0 && c.Header.SSRC == l.info.SSRCForwardErrorCorrection {
					t.Fatalf("%s: an FEC packet (call %d) was written before application packet seq %d itself", where, ci, l.seq)
				}
			}
			// A plain (non-RTX) NACK responder answers asynchronously: a request for a number that is written a moment later
			// can produce an identical copy while that write is still in progress. With RTX the copy carries the RTX SSRC.
			if found < 1 || (found > 1 && !(hasResponder && l.info.SSRCRetransmission == 0)) {
				t.Fatalf("%s: application packet seq %d reached the next writer %d times during its write (calls: %d)", where, l.seq, found, len(calls))
			}
			if fail {
				if !errors.Is(werr, errWrite) {
					t.Fatalf("%s: the next writer failed for packet seq %d but Write returned n=%d err=%v", where, l.seq, n, werr)
				}
			} else {
				wantN := orig.MarshalSize() + len(origPayload) + int(orig.PaddingSize)
				if hasHeaderExt && twccID > 0 {
					wantN = first.Header.MarshalSize() + len(origPayload) + int(orig.PaddingSize)
				}
				// the estimator's pacer refuses packets it cannot attribute (FEC / RTX SSRCs, packets without the negotiated
				// extension) that an outer member injects; that error is joined into the application's result although the
				// application packet itself went through - the statement does not forbid it
				if werr != nil && !(hasCC && len(calls) >= 1) {
					t.Fatalf("%s: Write of packet seq %d returned err=%v although the next writer did not fail", where, l.seq, werr)
				}
				if werr == nil && n != wantN {
					t.Fatalf("%s: Write of packet seq %d returned n=%d, the next writer returned n=%d", where, l.seq, n, wantN)
				}
			}
			l.history = append(l.history, first)
		}
		readRTP := func(t *rapid.T) {
			r := remotes[rapid.IntRange(0, len(remotes)-1).Draw(t, "r")]
			r.seq++
			twIn++
			r.twcc = twIn
			fail := rapid.IntRange(0, 11).Draw(t, "failRead") == 0
			seq, tw := r.seq, r.twcc
			if fail { // a marker far from every other number, so that accounting it would be visible
				seq, tw = r.seq+20000, r.twcc+20000
				r.markers, r.twMarks = append(r.markers, seq), append(r.twMarks, tw)
				faults++
			}
			hdr := genHeader(t, r.info.SSRC, seq, tw)
			payload := kit.Payload(t, "p", 1400)
			if hdr.Padding && len(payload) == 0 {
				payload = []byte{1}
			}
			raw, err := (&rtp.Packet{Header: hdr, Payload: payload}).Marshal()
			if err != nil {
				t.Fatalf("harness: %v", err)
			}
			h.U(2, uint64(r.info.SSRC), uint64(seq)).I(len(raw))
			readErr := errRead
			if fail && rapid.IntRange(0, 2).Draw(t, "shortBuffer") == 0 {
				// what a packet buffer returns for a datagram larger than the caller's buffer: the bytes that fit, with io.ErrShortBuffer
				readErr = io.ErrShortBuffer
			}
			if fail {
				r.src.mu.Lock()
				r.src.fail[r.src.n] = failure{err: readErr, bytes: raw}
				r.src.mu.Unlock()
			} else {
				r.src.Push(raw)
			}
			buf := kit.DirtyBuffer(2100)
			n, _, rerr := r.r.Read(buf, interceptor.Attributes{})
			r.reads++
			if fail {
				if !errors.Is(rerr, readErr) {
					t.Fatalf("%s: the wrapped reader failed (%v) but Read returned n=%d err=%v", where, readErr, n, rerr)
				}

				return
			}
			if rerr != nil || n != len(raw) || !bytes.Equal(buf[:n], raw) {
				t.Fatalf("%s: incoming packet seq %d (%d bytes) was handed up as n=%d err=%v (bytes equal: %v)", where, seq, len(raw), n, rerr, n == len(raw) && bytes.Equal(buf[:n], raw))
			}
		}
		writeRTCP := func(t *rapid.T) {
			appRTCP++
			pkts := []rtcp.Packet{&rtcp.PictureLossIndication{SenderSSRC: 0xA0000000 + uint32(appRTCP), MediaSSRC: remotes[0].info.SSRC}} //nolint:gosec
			if rapid.Bool().Draw(t, "withRR") {
				pkts = append([]rtcp.Packet{&rtcp.ReceiverReport{SSRC: 0xA0000000 + uint32(appRTCP)}}, pkts...) //nolint:gosec
			}
			if rapid.Bool().Draw(t, "withNack") {
				pkts = append(pkts, &rtcp.TransportLayerNack{SenderSSRC: 0xA0000000 + uint32(appRTCP), MediaSSRC: remotes[0].info.SSRC, Nacks: []rtcp.NackPair{{PacketID: 7}}}) //nolint:gosec
			}
			fail := rapid.IntRange(0, 11).Draw(t, "failRTCPWrite") == 0
			h.U(3).I(len(pkts))
			// generators write to the same sink from their ticker goroutines: the failure is attached to our marker
			if fail {
				faults++
			}
			n, werr := writeMarked(rtcpW, rtcpSink, pkts, fail)
			if fail {
				if !errors.Is(werr, errRTCPWrite) {
					t.Fatalf("%s: the RTCP writer failed but Write returned n=%d err=%v", where, n, werr)
				}
			} else if werr != nil {
				t.Fatalf("%s: RTCP Write returned err=%v", where, werr)
			}
			expectRTCP = append(expectRTCP, pkts)
		}
		readRTCP := func(t *rapid.T) {
			l := locals[rapid.IntRange(0, len(locals)-1).Draw(t, "l")]
			var pkts []rtcp.Packet
			for i, n := 0, rapid.IntRange(1, 3).Draw(t, "n"); i < n; i++ {
				switch rapid.IntRange(0, 5).Draw(t, "kind") {
				case 0:
					pkts = append(pkts, &rtcp.ReceiverReport{SSRC: 9, Reports: []rtcp.ReceptionReport{{SSRC: l.info.SSRC, LastSequenceNumber: uint32(l.seq), Jitter: 3}}})
				case 1:
					pkts = append(pkts, &rtcp.TransportLayerNack{SenderSSRC: 9, MediaSSRC: l.info.SSRC, Nacks: []rtcp.NackPair{{PacketID: l.seq - uint16(rapid.IntRange(0, 5).Draw(t, "back")), LostPackets: rtcp.PacketBitmap(rapid.Uint16Range(0, 7).Draw(t, "blp"))}}}) //nolint:gosec
				case 2:
					pkts = append(pkts, &rtcp.PictureLossIndication{SenderSSRC: 9, MediaSSRC: l.info.SSRC})
				case 3:
					spec := kit.TWCCSpec{Base: l.twcc - 3, RefTime: 5, Statuses: []kit.TWCCStatus{{Received: true, Delta250: 4}, {}, {Received: true, Delta250: 8}, {Received: true, Delta250: 2}}}
					fb := kit.EncodeTWCC(t, spec, 0)
					fb.MediaSSRC = l.info.SSRC
					pkts = append(pkts, fb)
				case 4:
					pkts = append(pkts, &rtcp.CCFeedbackReport{SenderSSRC: 9, ReportTimestamp: 77, ReportBlocks: []rtcp.CCFeedbackReportBlock{{MediaSSRC: l.info.SSRC, BeginSequence: l.seq - 2,
						MetricBlocks: []rtcp.CCFeedbackMetricBlock{{Received: true, ArrivalTimeOffset: 10}, {}, {Received: true, ArrivalTimeOffset: 3}}}}})
				default:
					pkts = append(pkts, &rtcp.SenderReport{SSRC: remotes[0].info.SSRC, NTPTime: 1 << 40, RTPTime: 5, PacketCount: 1, OctetCount: 2})
				}
			}
			raw, err := rtcp.Marshal(pkts)
			if err != nil {
				t.Fatalf("harness: %v", err)
			}
			fail := rapid.IntRange(0, 11).Draw(t, "failRTCPRead") == 0
			h.U(4).I(len(raw))
			if fail {
				faults++
				rtcpSrc.mu.Lock()
				rtcpSrc.fail[rtcpSrc.n] = failure{err: errRTCPRead, bytes: raw}
				rtcpSrc.mu.Unlock()
			} else {
				rtcpSrc.Push(raw)
			}
			buf := kit.DirtyBuffer(1700)
			n, _, rerr := rtcpR.Read(buf, interceptor.Attributes{})
			if fail {
				if !errors.Is(rerr, errRTCPRead) {
					t.Fatalf("%s: the wrapped RTCP reader failed but Read returned n=%d err=%v", where, n, rerr)
				}
			} else if rerr != nil || n != len(raw) || !bytes.Equal(buf[:n], raw) {
				t.Fatalf("%s: incoming RTCP compound of %d bytes was handed up as n=%d err=%v", where, len(raw), n, rerr)
			}
			// retransmissions run in their own goroutines: let them finish before the next application write
			if hasResponder {
				if left := kit.WaitGoroutines(base, 10*time.Second); left > base {
					t.Fatalf("%s: goroutines started by an RTCP read still running after 10 s", where)
				}
			}
		}
		t.Repeat(map[string]func(*rapid.T){"writeRTP": writeRTP, "writeRTP2": writeRTP, "writeRTP3": writeRTP, "readRTP": readRTP, "readRTP2": readRTP, "writeRTCP": writeRTCP, "readRTCP": readRTCP})
		// (5) application RTCP reached the writer once each, in order, unchanged
		var seenApp [][]rtcp.Packet
		for _, c := range rtcpSink.Calls() {
			for _, p := range c.Pkts {
				if pli, ok := p.(*rtcp.PictureLossIndication); ok && pli.SenderSSRC >= 0xA0000000 {
					seenApp = append(seenApp, c.Pkts)
				}
			}
		}
		if len(seenApp) != len(expectRTCP) {
			t.Fatalf("%s: %d application RTCP writes, %d reached the RTCP writer", where, len(expectRTCP), len(seenApp))
		}
		for i := range expectRTCP {
			if !reflect.DeepEqual(seenApp[i], expectRTCP[i]) {
				t.Fatalf("%s: application RTCP write %d reached the writer altered or out of order: got %v, sent %v", where, i, seenApp[i], expectRTCP[i])
			}
		}
		// (4) nothing generated accounts for a packet whose read failed
		anyMarker := false
		for _, r := range remotes {
			anyMarker = anyMarker || len(r.markers) > 0
		}
		if anyMarker {
			time.Sleep(6 * interval)
			for _, c := range rtcpSink.Calls() {
				for _, p := range c.Pkts {
					for _, r := range remotes {
						if d := accounts(p, r); d != "" {
							t.Fatalf("%s: feedback accounts for a packet whose read failed: %s", where, d)
						}
					}
				}
			}
		}
		for _, sh := range shadows {
			if n := sh.Len(); n > 0 {
				c := sh.Calls()[0]
				t.Fatalf("%s: %d packets (first: ssrc %#x seq %d) were written to the next writer of an earlier Bind of the stream, which the application no longer uses", where, n, c.Header.SSRC, c.Header.SequenceNumber)
			}
		}
		// (6) Unbind and Close reach every member exactly once, all Close errors are preserved
		for _, l := range locals {
			chain.UnbindLocalStream(l.info)
		}
		for _, r := range remotes {
			chain.UnbindRemoteStream(r.info)
		}
		closed = true
		var cerr error
		if o := kit.Guard(0, func() { cerr = chain.Close() }); !o.OK() {
			t.Fatalf("%s: Close: %s", where, o)
		}
		for i, s := range spies {
			for _, l := range locals {
				if s.unbindLocal[l.info.SSRC] != 1 {
					t.Fatalf("%s: spy %d saw UnbindLocalStream(%#x) %d times", where, i, l.info.SSRC, s.unbindLocal[l.info.SSRC])
				}
			}
			for _, r := range remotes {
				if s.unbindRemote[r.info.SSRC] != 1 {
					t.Fatalf("%s: spy %d saw UnbindRemoteStream(%#x) %d times", where, i, r.info.SSRC, s.unbindRemote[r.info.SSRC])
				}
			}
			if s.closes != 1 {
				t.Fatalf("%s: spy %d saw Close %d times", where, i, s.closes)
			}
			if s.closeErr != nil && !errors.Is(cerr, s.closeErr) {
				t.Fatalf("%s: spy %d returned %q from Close but the chain's Close returned %v", where, i, s.closeErr, cerr)
			}
		}
		sort.Strings(names)
		rec.Case(h.Sum(), len(names) >= 2 && (richPacket || faults > 0), []string{fmt.Sprintf("len=%d", len(names)), fmt.Sprintf("faults>0=%v", faults > 0)}, func() any {
			return map[string]any{"chain_sorted": names, "twcc_id": twccID, "locals": len(locals), "remotes": len(remotes), "faults_injected": faults, "app_rtcp_writes": appRTCP}
		})
	})
}

// writeMarked writes application RTCP and, if asked, makes exactly the sink call carrying it fail.
func writeMarked(w interceptor.RTCPWriter, sink *kit.RTCPSink, pkts []rtcp.Packet, fail bool) (int, error) {
	if !fail {
		return w.Write(pkts, interceptor.Attributes{})
	}
	marker := pkts[len(pkts)-1]
	for _, p := range pkts {
		if _, ok := p.(*rtcp.PictureLossIndication); ok {
			marker = p
		}
	}
	sink.SetFailIf(func(c kit.SentRTCP) error {
		for _, p := range c.Pkts {
			if p == marker {
				return errRTCPWrite
			}
		}

		return nil
	})
	defer sink.SetFailIf(nil)

	return w.Write(pkts, interceptor.Attributes{})
}

// injected: is c a packet an interceptor may add on its own (FEC, RTX, plain retransmission of an earlier packet)?
func injected(l *localStream, c kit.SentRTP) bool {
	if l.info.SSRCForwardErrorCorrection != 0 && c.Header.SSRC == l.info.SSRCForwardErrorCorrection && c.Header.PayloadType == l.info.PayloadTypeForwardErrorCorrection {
		return true
	}
	if l.info.SSRCRetransmission != 0 && c.Header.SSRC == l.info.SSRCRetransmission && c.Header.PayloadType == l.info.PayloadTypeRetransmission {
		return true
	}
	for _, hp := range l.history {
		if hp.Header.SequenceNumber == c.Header.SequenceNumber && c.Header.SSRC == l.info.SSRC && bytes.Equal(hp.Payload, c.Payload) {
			return true
		}
	}

	return false
}

// accounts: does feedback packet p cover one of r's marker packets (whose read failed)?
func accounts(p rtcp.Packet, r *remoteStream) string {
	in := func(v, begin uint16, n int) bool { return int(v-begin) < n }
	switch fb := p.(type) {
	case *rtcp.ReceiverReport:
		for _, rr := range fb.Reports {
			for _, m := range r.markers {
				if rr.SSRC == r.info.SSRC && uint16(rr.LastSequenceNumber) == m { //nolint:gosec
					return fmt.Sprintf("receiver report for ssrc %#x has highest sequence number %d", rr.SSRC, m)
				}
			}
		}
	case *rtcp.TransportLayerNack:
		if fb.MediaSSRC != r.info.SSRC || fb.SenderSSRC >= 0xA0000000 { // the second kind was written by the application itself
			return ""
		}
		for _, pair := range fb.Nacks {
			for _, s := range pair.PacketList() {
				for _, m := range r.markers {
					if m-s < 19000 { // a request for a number between the last good packet and the marker
						return fmt.Sprintf("NACK for ssrc %#x requests %d (marker %d was never received)", fb.MediaSSRC, s, m)
					}
				}
			}
		}
	case *rtcp.TransportLayerCC:
		raw, err := fb.Marshal()
		if err != nil {
			return ""
		}
		w, err := kit.DecodeTWCC(raw)
		if err != nil {
			return ""
		}
		for _, m := range r.twMarks {
			if in(m, w.Base, int(w.Count)) && w.Symbols[m-w.Base] != 0 {
				return fmt.Sprintf("transport-cc feedback [%d,+%d) reports transport number %d as received", w.Base, w.Count, m)
			}
		}
	case *rtcp.CCFeedbackReport:
		for _, b := range fb.ReportBlocks {
			for _, m := range r.markers {
				if b.MediaSSRC == r.info.SSRC && in(m, b.BeginSequence, len(b.MetricBlocks)) && b.MetricBlocks[m-b.BeginSequence].Received {
					return fmt.Sprintf("RFC 8888 report for ssrc %#x [%d,+%d) reports sequence number %d as received", b.MediaSSRC, b.BeginSequence, len(b.MetricBlocks), m)
				}
			}
		}
	}

	return ""
}
