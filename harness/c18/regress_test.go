package c18

import (
	"bytes"
	"testing"

	"github.com/pion/interceptor"
	"github.com/pion/interceptor/pkg/jitterbuffer"
	"github.com/pion/interceptor/verifharness/kit"
	"github.com/pion/rtp"
)

// Plain, library-free regression checks for confirmed findings (see /verif/KNOWN_FINDINGS.json).

func TestRegressClearDropsPackets(t *testing.T) {
	jb := jitterbuffer.New(jitterbuffer.WithMinimumPacketCount(1))
	jb.Push(&rtp.Packet{Header: rtp.Header{SequenceNumber: 0}})
	jb.Clear(false)
	if p, err := jb.PeekAtSequence(0); err == nil && p != nil {
		kit.WriteReplay("TestRegressClearDropsPackets", []byte(`{"ops":["push 0","clear false","peekAtSequence 0"]}`))
		t.Fatalf("after Clear, PeekAtSequence(0) still returns the packet buffered before it")
	}
}

func TestRegressDuplicateHeadNoCycle(t *testing.T) {
	o := kit.Guard(opDeadline, func() {
		q := jitterbuffer.NewQueue()
		q.Push(&rtp.Packet{Header: rtp.Header{SequenceNumber: 5}}, 5)
		q.Push(&rtp.Packet{Header: rtp.Header{SequenceNumber: 5}}, 5)
		_, _ = q.Find(7)
		if q.Length() != 2 {
			panic("length")
		}
	})
	if !o.OK() {
		kit.WriteReplay("TestRegressDuplicateHeadNoCycle", []byte(`{"ops":["push 5","push 5","find 7"]}`))
		t.Fatalf("push 5, push 5, Find(7): %s", o)
	}
}

func TestRegressInterceptorParsesOnlyReadBytes(t *testing.T) {
	f, _ := jitterbuffer.NewInterceptor()
	ic, _ := f.NewInterceptor("")
	src := &kit.ByteSource{}
	r := ic.BindRemoteStream(&interceptor.StreamInfo{SSRC: 1}, src)
	var firstRaw []byte
	for i := 0; i < 50; i++ {
		raw, _ := (&rtp.Packet{Header: rtp.Header{Version: 2, SequenceNumber: uint16(i), SSRC: 1}, Payload: []byte{1, 2, 3}}).Marshal()
		if i == 0 {
			firstRaw = raw
		}
		src.Push(raw)
		buf := kit.DirtyBuffer(1500)
		n, _, err := r.Read(buf, interceptor.Attributes{})
		if i == 49 {
			if err != nil || n != len(firstRaw) || !bytes.Equal(buf[:n], firstRaw) {
				kit.WriteReplay("TestRegressInterceptorParsesOnlyReadBytes", []byte(`{"packets":"50 x 15 bytes read into a 1500-byte buffer"}`))
				t.Fatalf("50th read: want the 15 bytes of packet 0, got n=%d err=%v", n, err)
			}
		}
	}
}
