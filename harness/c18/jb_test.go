package c18

import (
	"errors"
	"fmt"
	"testing"
	"time"

	"github.com/pion/interceptor/pkg/jitterbuffer"
	"github.com/pion/interceptor/verifharness/kit"
	"github.com/pion/rtp"
	"pgregory.net/rapid"
)

// in-memory operations take microseconds; 3 s means "wedged" (the statement covers loops: C02/C18)
const opDeadline = 3 * time.Second

type pktInfo struct {
	seq   uint16
	ts    uint32
	epoch int  // incremented by Clear
	gone  bool // returned by a pop
	id    int
}

type jbModel struct {
	info      map[*rtp.Packet]*pktInfo
	live      map[uint16][]*rtp.Packet // buffered since the last Clear, not yet popped
	epoch     int
	n         int
	emitting  bool
	ambiguous bool // after Clear(true): the start threshold may be the configured one or the default 50
	// maybeStarted: during such a period the fill level has reached the lower of the two thresholds at some point, so playback has possibly
	// started (and stays started when the level drops again)
	maybeStarted bool
	minStart     int
	head         uint16
	everReady    bool // mirrors playoutReady: the next packet pushed into an empty buffer does not re-anchor the playout head
	started      bool // playback started at least once in this case (for the evidence classes)
	lastSeq      uint16
}

func (m *jbModel) size() int {
	n := 0
	for _, l := range m.live {
		n += len(l)
	}

	return n
}

func (m *jbModel) remove(p *rtp.Packet) {
	i := m.info[p]
	i.gone = true
	l := m.live[i.seq]
	for k := range l {
		if l[k] == p {
			l = append(l[:k], l[k+1:]...)

			break
		}
	}
	if len(l) == 0 {
		delete(m.live, i.seq)
	} else {
		m.live[i.seq] = l
	}
}

// checkReturned: a packet handed out must be the very object pushed with the wanted number, buffered
// since the last Clear and not returned by a pop before.
func (m *jbModel) checkReturned(p *rtp.Packet, what string, wantSeq *uint16, wantTS *uint32) error {
	if p == nil {
		return fmt.Errorf("%s succeeded but returned a nil packet", what)
	}
	i, ok := m.info[p]
	if !ok {
		return fmt.Errorf("%s returned a packet object that was never pushed", what)
	}
	if i.epoch != m.epoch {
		return fmt.Errorf("%s returned packet #%d (seq %d) that was buffered before the last Clear", what, i.id, i.seq)
	}
	if i.gone {
		return fmt.Errorf("%s returned packet #%d (seq %d) that an earlier pop already returned", what, i.id, i.seq)
	}
	if wantSeq != nil && i.seq != *wantSeq {
		return fmt.Errorf("%s for sequence number %d returned the packet pushed with %d", what, *wantSeq, i.seq)
	}
	if wantTS != nil && i.ts != *wantTS {
		return fmt.Errorf("%s for timestamp %d returned the packet pushed with timestamp %d", what, *wantTS, i.ts)
	}
	if p.SequenceNumber != i.seq || p.Timestamp != i.ts {
		return fmt.Errorf("%s returned packet #%d altered (seq %d ts %d, pushed as seq %d ts %d)", what, i.id, p.SequenceNumber, p.Timestamp, i.seq, i.ts)
	}

	return nil
}

func guard(t *rapid.T, what string, fn func()) {
	o := kit.Guard(opDeadline, fn)
	if !o.OK() {
		t.Fatalf("%s: %s", what, o)
	}
}

func TestJitterBufferModel(t *testing.T) {
	rec := kit.NewRecorder("C18", "jitterbuffer-state-machine",
		"rapid state machine over Push/Pop/PopAtSequence/PopAtTimestamp/Peek/PeekAtSequence/SetPlayoutHead/Clear on the exported "+
			"JitterBuffer with minimum start count 1..260 (runs of up to 130 pushes in one step), each call under a watchdog; non-trivial = the sequence contains a duplicate push or "+
			"a Clear followed by further operations, and playback started; distinct by operation trace")
	rapid.Check(t, func(t *rapid.T) {
		minStart := rapid.OneOf(rapid.IntRange(1, 6), rapid.IntRange(1, 6), rapid.IntRange(1, 60), rapid.IntRange(95, 260)).Draw(t, "minStart")
		jb := jitterbuffer.New(jitterbuffer.WithMinimumPacketCount(uint16(minStart)))
		m := &jbModel{info: map[*rtp.Packet]*pktInfo{}, live: map[uint16][]*rtp.Packet{}, minStart: minStart}
		base := kit.U16Boundary().Draw(t, "base")
		trace := kit.NewH().I(minStart).U(uint64(base))
		var sawDup, sawClearThenOp, clearSeen bool
		nextOff := 0
		seqNear := func(label string) uint16 {
			// numbers near the ones in play so that hits, duplicates and misses all occur
			return base + uint16(rapid.IntRange(-3, nextOff+3).Draw(t, label)) //nolint:gosec
		}
		resyncHead := func() {
			guard(t, "PlayoutHead", func() { m.head = jb.PlayoutHead() })
		}
		pushModel := func(p *rtp.Packet) {
			if !m.everReady && m.size() == 0 {
				m.head = p.SequenceNumber
			}
			m.n++
			m.info[p] = &pktInfo{seq: p.SequenceNumber, ts: p.Timestamp, epoch: m.epoch, id: m.n}
			if len(m.live[p.SequenceNumber]) > 0 {
				sawDup = true
			}
			m.live[p.SequenceNumber] = append(m.live[p.SequenceNumber], p)
			m.lastSeq = p.SequenceNumber
		}
		// started reports the model's view: (started, certain)
		updateState := func() {
			if m.emitting {
				return
			}
			sz := m.size()
			if !m.ambiguous {
				if sz >= m.minStart {
					m.emitting, m.everReady, m.started = true, true, true
				}

				return
			}
			// after Clear(true) either threshold is tolerated until the implementation shows its hand
			lo, hi := min(m.minStart, 50), max(m.minStart, 50)
			if sz >= hi {
				m.emitting, m.everReady, m.ambiguous, m.started = true, true, false, true
			} else if sz >= lo {
				m.maybeStarted = true // resolved by the next pop's outcome
			}
		}
		// refusedOK: a pop was refused with ErrPopWhileBuffering - allowed?
		popGate := func(what string, err error) (refused bool) {
			isRefusal := errors.Is(err, jitterbuffer.ErrPopWhileBuffering)
			if m.emitting {
				if isRefusal {
					t.Fatalf("%s refused with ErrPopWhileBuffering although playback has started (buffered %d >= minimum %d was reached)", what, m.size(), m.minStart)
				}

				return false
			}
			if m.ambiguous && m.maybeStarted {
				if isRefusal {
					return true
				}
				m.emitting, m.ambiguous, m.everReady, m.started = true, false, true, true // implementation has started playback; allowed

				return false
			}
			if !isRefusal {
				t.Fatalf("%s before playback started (buffered %d < minimum %d) was not refused with ErrPopWhileBuffering: err=%v", what, m.size(), m.minStart, err)
			}

			return true
		}
		afterOp := func() {
			if clearSeen {
				sawClearThenOp = true
			}
		}
		var ops []string
		logOp := func(f string, a ...any) {
			if len(ops) < 80 {
				ops = append(ops, fmt.Sprintf(f, a...))
			}
		}
		actions := map[string]func(*rapid.T){
			"push": func(t *rapid.T) {
				var seq uint16
				switch rapid.IntRange(0, 5).Draw(t, "how") {
				case 0, 1, 2:
					seq = base + uint16(nextOff) //nolint:gosec
					nextOff++
				case 3:
					seq = seqNear("seq")
				case 4: // duplicate of something buffered (incl. the lowest)
					seq = m.head
				default:
					nextOff += rapid.IntRange(1, 3).Draw(t, "gap")
					seq = base + uint16(nextOff) //nolint:gosec
					nextOff++
				}
				ts := uint32(seq/2) * 3000 // two packets per frame
				p := &rtp.Packet{Header: rtp.Header{Version: 2, SequenceNumber: seq, Timestamp: ts}, Payload: []byte{byte(m.n)}}
				trace.U(1, uint64(seq))
				logOp("push %d", seq)
				guard(t, fmt.Sprintf("Push(seq %d)", seq), func() { jb.Push(p) })
				wasAmbiguous := m.ambiguous
				pushModel(p)
				updateState()
				if wasAmbiguous {
					resyncHead() // whether this push (re)set the head depends on the undecided start threshold
				}
				afterOp()
			},
			"pushRun": func(t *rapid.T) {
				// a run of in-order pushes in one step, so that large start counts and fill levels above 100 are reached within a case
				k := rapid.OneOf(rapid.IntRange(2, 30), rapid.IntRange(2, 30), rapid.IntRange(2, 12), rapid.IntRange(90, 130)).Draw(t, "runLength")
				trace.U(9, uint64(k))
				logOp("push run of %d from %d", k, base+uint16(nextOff)) //nolint:gosec
				for i := 0; i < k; i++ {
					seq := base + uint16(nextOff) //nolint:gosec
					nextOff++
					pk := &rtp.Packet{Header: rtp.Header{Version: 2, SequenceNumber: seq, Timestamp: uint32(seq/2) * 3000}, Payload: []byte{byte(m.n)}}
					guard(t, fmt.Sprintf("Push(seq %d)", seq), func() { jb.Push(pk) })
					wasAmbiguous := m.ambiguous
					pushModel(pk)
					updateState()
					if wasAmbiguous {
						resyncHead()
					}
				}
				afterOp()
			},
			"pop": func(t *rapid.T) {
				trace.U(2)
				logOp("pop")
				var p *rtp.Packet
				var err error
				guard(t, "Pop", func() { p, err = jb.Pop() })
				afterOp()
				if popGate("Pop", err) {
					return
				}
				if len(m.live[m.head]) > 0 {
					if err != nil {
						t.Fatalf("Pop at playout head %d failed (%v) although a packet with that number is buffered", m.head, err)
					}
					if e := m.checkReturned(p, "Pop", &m.head, nil); e != nil {
						t.Fatalf("%v", e)
					}
					m.remove(p)
					m.head++
					var h uint16
					guard(t, "PlayoutHead", func() { h = jb.PlayoutHead() })
					if h != m.head {
						t.Fatalf("after a successful Pop the playout head is %d, want %d (one past the number returned)", h, m.head)
					}

					return
				}
				if err == nil {
					t.Fatalf("Pop at playout head %d succeeded although no packet with that number is buffered (returned %v)", m.head, p)
				}
				var h uint16
				guard(t, "PlayoutHead", func() { h = jb.PlayoutHead() })
				if h != m.head {
					t.Fatalf("a failed Pop moved the playout head from %d to %d", m.head, h)
				}
			},
			"popAtSequence": func(t *rapid.T) {
				sq := rapid.OneOf(rapid.Just(m.head), rapid.Custom(func(t *rapid.T) uint16 { return seqNear("sq") })).Draw(t, "sq")
				trace.U(3, uint64(sq))
				logOp("popAtSequence %d", sq)
				var p *rtp.Packet
				var err error
				guard(t, "PopAtSequence", func() { p, err = jb.PopAtSequence(sq) })
				afterOp()
				if popGate("PopAtSequence", err) {
					return
				}
				if len(m.live[sq]) > 0 {
					if err != nil {
						t.Fatalf("PopAtSequence(%d) failed (%v) although a packet with that number is buffered", sq, err)
					}
					if e := m.checkReturned(p, "PopAtSequence", &sq, nil); e != nil {
						t.Fatalf("%v", e)
					}
					m.remove(p)
					if sq == m.head {
						m.head++
						var h uint16
						guard(t, "PlayoutHead", func() { h = jb.PlayoutHead() })
						if h != m.head {
							t.Fatalf("after PopAtSequence at the playout head the head is %d, want %d", h, m.head)
						}
					} else {
						resyncHead() // effect on the head is not defined by the statement
					}

					return
				}
				if err == nil {
					t.Fatalf("PopAtSequence(%d) succeeded although no packet with that number is buffered", sq)
				}
				var h uint16
				guard(t, "PlayoutHead", func() { h = jb.PlayoutHead() })
				if h != m.head {
					t.Fatalf("a failed PopAtSequence moved the playout head from %d to %d", m.head, h)
				}
			},
			"popAtTimestamp": func(t *rapid.T) {
				sq := seqNear("sqForTs")
				ts := uint32(sq/2) * 3000
				trace.U(4, uint64(ts))
				logOp("popAtTimestamp %d", ts)
				var p *rtp.Packet
				var err error
				guard(t, "PopAtTimestamp", func() { p, err = jb.PopAtTimestamp(ts) })
				afterOp()
				if popGate("PopAtTimestamp", err) {
					return
				}
				have := false
				for _, l := range m.live {
					for _, q := range l {
						if m.info[q].ts == ts {
							have = true
						}
					}
				}
				if have {
					if err != nil {
						t.Fatalf("PopAtTimestamp(%d) failed (%v) although a packet with that timestamp is buffered", ts, err)
					}
					if e := m.checkReturned(p, "PopAtTimestamp", nil, &ts); e != nil {
						t.Fatalf("%v", e)
					}
					m.remove(p)
					resyncHead()

					return
				}
				if err == nil {
					t.Fatalf("PopAtTimestamp(%d) succeeded although no packet with that timestamp is buffered", ts)
				}
			},
			"peek": func(t *rapid.T) {
				atHead := rapid.Bool().Draw(t, "playoutHead")
				trace.U(5)
				logOp("peek %v", atHead)
				var p *rtp.Packet
				var err error
				guard(t, "Peek", func() { p, err = jb.Peek(atHead) })
				afterOp()
				if err != nil || p == nil {
					return
				}
				if e := m.checkReturned(p, "Peek", nil, nil); e != nil {
					t.Fatalf("%v", e)
				}
			},
			"peekAtSequence": func(t *rapid.T) {
				sq := seqNear("sq")
				trace.U(6, uint64(sq))
				logOp("peekAtSequence %d", sq)
				var p *rtp.Packet
				var err error
				guard(t, "PeekAtSequence", func() { p, err = jb.PeekAtSequence(sq) })
				afterOp()
				if len(m.live[sq]) > 0 {
					if err != nil {
						t.Fatalf("PeekAtSequence(%d) failed (%v) although a packet with that number is buffered", sq, err)
					}
					if e := m.checkReturned(p, "PeekAtSequence", &sq, nil); e != nil {
						t.Fatalf("%v", e)
					}

					return
				}
				if err == nil && p != nil {
					if e := m.checkReturned(p, "PeekAtSequence", &sq, nil); e != nil {
						t.Fatalf("%v", e)
					}
					t.Fatalf("PeekAtSequence(%d) returned a packet although none with that number is buffered", sq)
				}
			},
			"setPlayoutHead": func(t *rapid.T) {
				h := rapid.OneOf(rapid.Custom(func(t *rapid.T) uint16 { return seqNear("h") }), rapid.Uint16()).Draw(t, "h")
				trace.U(7, uint64(h))
				logOp("setPlayoutHead %d", h)
				guard(t, "SetPlayoutHead", func() { jb.SetPlayoutHead(h) })
				m.head = h
				afterOp()
			},
			"clear": func(t *rapid.T) {
				reset := rapid.Bool().Draw(t, "reset")
				trace.U(8)
				logOp("clear %v", reset)
				guard(t, "Clear", func() { jb.Clear(reset) })
				m.epoch++
				m.live = map[uint16][]*rtp.Packet{}
				if reset {
					m.emitting = false
					m.everReady = false // the next packet pushed starts a new playout sequence
					m.ambiguous = m.minStart != 50
					m.maybeStarted = false
				}
				resyncHead()
				clearSeen = true
			},
			"": func(t *rapid.T) {
				// every buffered packet stays findable; nothing else is
				for sq, l := range m.live {
					if len(l) == 0 {
						continue
					}
					var p *rtp.Packet
					var err error
					sqc := sq
					guard(t, "PeekAtSequence (invariant)", func() { p, err = jb.PeekAtSequence(sqc) })
					if err != nil {
						t.Fatalf("buffered packet with sequence number %d is no longer findable: %v", sq, err)
					}
					if e := m.checkReturned(p, "PeekAtSequence (invariant)", &sqc, nil); e != nil {
						t.Fatalf("%v", e)
					}
				}
			},
		}
		// rapid picks actions uniformly: weight pushes and pops by aliasing them
		for _, alias := range []string{"push2", "push3", "push4", "push5"} {
			actions[alias] = actions["push"]
		}
		actions["pop2"], actions["pop3"] = actions["pop"], actions["pop"]
		actions["pushBurst"] = func(t *rapid.T) {
			k := rapid.IntRange(2, 12).Draw(t, "burst")
			for i := 0; i < k; i++ {
				seq := base + uint16(nextOff) //nolint:gosec
				nextOff++
				p := &rtp.Packet{Header: rtp.Header{Version: 2, SequenceNumber: seq, Timestamp: uint32(seq/2) * 3000}, Payload: []byte{byte(m.n)}}
				trace.U(1, uint64(seq))
				logOp("push %d", seq)
				guard(t, fmt.Sprintf("Push(seq %d)", seq), func() { jb.Push(p) })
				wasAmbiguous := m.ambiguous
				pushModel(p)
				updateState()
				if wasAmbiguous {
					resyncHead()
				}
			}
			afterOp()
		}
		t.Repeat(actions)
		rec.Case(trace.Sum(), (sawDup || sawClearThenOp) && m.started,
			[]string{cls("dup", sawDup), cls("clear-then-op", sawClearThenOp), cls("playback", m.started)},
			func() any {
				return map[string]any{"min_start": minStart, "base_seq": base, "packets_pushed": m.n,
					"duplicate_pushed": sawDup, "clear_followed_by_ops": sawClearThenOp, "playout_head_at_end": m.head, "ops": ops}
			})
	})
}

func cls(name string, on bool) string {
	if on {
		return name + "=yes"
	}

	return name + "=no"
}
