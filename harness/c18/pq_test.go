package c18

import (
	"fmt"
	"testing"

	"github.com/pion/interceptor/pkg/jitterbuffer"
	"github.com/pion/interceptor/verifharness/kit"
	"github.com/pion/rtp"
	"pgregory.net/rapid"
)

func TestPriorityQueueModel(t *testing.T) {
	rec := kit.NewRecorder("C18", "priority-queue-state-machine",
		"rapid state machine over Push/Pop/PopAt/PopAtTimestamp/Find/Clear on the exported PriorityQueue with a Length() invariant; "+
			"non-trivial = history contains a duplicate priority or a Clear followed by further operations; distinct by operation trace")
	rapid.Check(t, func(t *rapid.T) {
		q := jitterbuffer.NewQueue()
		m := &jbModel{info: map[*rtp.Packet]*pktInfo{}, live: map[uint16][]*rtp.Packet{}}
		base := kit.U16Boundary().Draw(t, "base")
		trace := kit.NewH().U(uint64(base))
		var sawDup, clearSeen, sawClearThenOp bool
		var ops []string
		logOp := func(f string, a ...any) {
			if len(ops) < 80 {
				ops = append(ops, fmt.Sprintf(f, a...))
			}
		}
		near := func(label string) uint16 { return base + uint16(rapid.IntRange(-2, 12).Draw(t, label)) } //nolint:gosec
		after := func() {
			if clearSeen {
				sawClearThenOp = true
			}
		}
		popped := func(p *rtp.Packet, err error, what string, wantSeq *uint16, wantTS *uint32, expect bool) {
			if expect {
				if err != nil {
					t.Fatalf("%s failed (%v) although a matching packet is queued", what, err)
				}
				if e := m.checkReturned(p, what, wantSeq, wantTS); e != nil {
					t.Fatalf("%v", e)
				}
				m.remove(p)

				return
			}
			if err == nil {
				t.Fatalf("%s succeeded (packet %v) although nothing matching is queued", what, p)
			}
		}
		actions := map[string]func(*rapid.T){
			"push": func(t *rapid.T) {
				seq := near("seq")
				p := &rtp.Packet{Header: rtp.Header{Version: 2, SequenceNumber: seq, Timestamp: uint32(seq/2) * 3000}}
				trace.U(1, uint64(seq))
				logOp("push %d", seq)
				guard(t, "Push", func() { q.Push(p, seq) })
				m.n++
				m.info[p] = &pktInfo{seq: seq, ts: p.Timestamp, epoch: m.epoch, id: m.n}
				if len(m.live[seq]) > 0 {
					sawDup = true
				}
				m.live[seq] = append(m.live[seq], p)
				after()
			},
			"pop": func(t *rapid.T) {
				trace.U(2)
				logOp("pop")
				var p *rtp.Packet
				var err error
				guard(t, "Pop", func() { p, err = q.Pop() })
				popped(p, err, "Pop", nil, nil, m.size() > 0)
				after()
			},
			"popAt": func(t *rapid.T) {
				sq := near("sq")
				trace.U(3, uint64(sq))
				logOp("popAt %d", sq)
				var p *rtp.Packet
				var err error
				guard(t, "PopAt", func() { p, err = q.PopAt(sq) })
				popped(p, err, fmt.Sprintf("PopAt(%d)", sq), &sq, nil, len(m.live[sq]) > 0)
				after()
			},
			"popAtTimestamp": func(t *rapid.T) {
				ts := uint32(near("sqForTs")/2) * 3000
				trace.U(4, uint64(ts))
				logOp("popAtTimestamp %d", ts)
				have := false
				for _, l := range m.live {
					for _, p := range l {
						if m.info[p].ts == ts {
							have = true
						}
					}
				}
				var p *rtp.Packet
				var err error
				guard(t, "PopAtTimestamp", func() { p, err = q.PopAtTimestamp(ts) })
				popped(p, err, fmt.Sprintf("PopAtTimestamp(%d)", ts), nil, &ts, have)
				after()
			},
			"find": func(t *rapid.T) {
				sq := near("sq")
				trace.U(5, uint64(sq))
				logOp("find %d", sq)
				var p *rtp.Packet
				var err error
				guard(t, "Find", func() { p, err = q.Find(sq) })
				if len(m.live[sq]) > 0 {
					if err != nil {
						t.Fatalf("Find(%d) failed (%v) although queued", sq, err)
					}
					if e := m.checkReturned(p, "Find", &sq, nil); e != nil {
						t.Fatalf("%v", e)
					}
				} else if err == nil && p != nil {
					if e := m.checkReturned(p, "Find", &sq, nil); e != nil {
						t.Fatalf("%v", e)
					}
					t.Fatalf("Find(%d) returned a packet although none with that number is queued", sq)
				}
				after()
			},
			"clear": func(t *rapid.T) {
				trace.U(6)
				logOp("clear")
				guard(t, "Clear", func() { q.Clear() })
				m.epoch++
				m.live = map[uint16][]*rtp.Packet{}
				clearSeen = true
			},
			"": func(t *rapid.T) {
				var l uint16
				guard(t, "Length", func() { l = q.Length() })
				if int(l) != m.size() {
					t.Fatalf("Length() = %d but %d packets are queued (pushed and neither popped nor cleared)", l, m.size())
				}
				for sq := range m.live {
					var p *rtp.Packet
					var err error
					sqc := sq
					guard(t, "Find (invariant)", func() { p, err = q.Find(sqc) })
					if err != nil {
						t.Fatalf("queued packet %d is no longer findable: %v", sq, err)
					}
					if e := m.checkReturned(p, "Find (invariant)", &sqc, nil); e != nil {
						t.Fatalf("%v", e)
					}
				}
			},
		}
		actions["push2"], actions["push3"] = actions["push"], actions["push"]
		t.Repeat(actions)
		rec.Case(trace.Sum(), sawDup || sawClearThenOp, []string{cls("dup", sawDup), cls("clear-then-op", sawClearThenOp)}, func() any {
			return map[string]any{"base": base, "ops": ops}
		})
	})
}
