package c18

import (
	"bytes"
	"fmt"
	"testing"

	"github.com/pion/interceptor"
	"github.com/pion/interceptor/pkg/jitterbuffer"
	"github.com/pion/interceptor/verifharness/kit"
	"github.com/pion/rtp"
	"pgregory.net/rapid"
)

// TestInterceptorBytes: the jitter-buffer interceptor, fed packets smaller than the read buffer, returns for
// every successful read exactly the bytes that arrived for the next sequence number at the playout head.
func TestInterceptorBytes(t *testing.T) {
	rec := kit.NewRecorder("C18", "interceptor-bytes",
		"60..160 arrivals (all header shapes, payload 0..1200, local reordering <= 20, <= 12 duplicates) read through the interceptor "+
			"with a dirty 1500-byte buffer; non-trivial = the history contains a reordering or a duplicate; distinct by arrival order")
	rapid.Check(t, func(t *rapid.T) {
		f, err := jitterbuffer.NewInterceptor()
		if err != nil {
			t.Fatalf("NewInterceptor: %v", err)
		}
		ic, err := f.NewInterceptor("")
		if err != nil {
			t.Fatalf("NewInterceptor: %v", err)
		}
		src := &kit.ByteSource{}
		reader := ic.BindRemoteStream(&interceptor.StreamInfo{SSRC: 7}, src)
		n := rapid.IntRange(60, 160).Draw(t, "n")
		first := kit.U16Boundary().Draw(t, "first")
		// arrival order: identity + bounded local swaps + duplicates
		order := make([]int, n)
		for i := range order {
			order[i] = i
		}
		swaps := rapid.IntRange(0, 6).Draw(t, "swaps")
		reordered := false
		for s := 0; s < swaps; s++ {
			i := rapid.IntRange(0, n-2).Draw(t, "i")
			d := rapid.IntRange(1, 10).Draw(t, "d")
			j := min(n-1, i+d)
			order[i], order[j] = order[j], order[i]
			reordered = true
		}
		dups := rapid.IntRange(0, 12).Draw(t, "dups")
		for d := 0; d < dups; d++ {
			at := rapid.IntRange(1, len(order)-1).Draw(t, "at")
			what := order[max(0, at-rapid.IntRange(1, 8).Draw(t, "back"))]
			order = append(order[:at], append([]int{what}, order[at:]...)...)
		}
		raw := map[uint16][]byte{}
		h := kit.NewH().U(uint64(first))
		for i := 0; i < n; i++ {
			hdr := kit.GenHeader(t, "h", kit.HeaderShape{})
			hdr.SequenceNumber = first + uint16(i) //nolint:gosec
			hdr.Timestamp = uint32(i) * 3000       //nolint:gosec
			hdr.SSRC = 7
			payload := kit.Payload(t, "p", 1100)
			if hdr.Padding && len(payload) == 0 {
				payload = []byte{1}
			}
			b, err := (&rtp.Packet{Header: hdr, Payload: payload}).Marshal()
			if err != nil {
				t.Fatalf("harness: marshal: %v", err)
			}
			if len(b) > 1500 {
				b, _ = (&rtp.Packet{Header: rtp.Header{Version: 2, SequenceNumber: hdr.SequenceNumber, SSRC: 7}, Payload: payload}).Marshal()
			}
			raw[hdr.SequenceNumber] = b
		}
		// model
		buffered := map[uint16]int{}
		count, emitting := 0, false
		var head uint16
		successes := 0
		for k, idx := range order {
			seq := first + uint16(idx) //nolint:gosec
			h.U(uint64(idx))
			src.Push(raw[seq])
			buf := kit.DirtyBuffer(1500)
			var rn int
			var rerr error
			o := kit.Guard(opDeadline, func() { rn, _, rerr = reader.Read(buf, interceptor.Attributes{}) })
			if !o.OK() {
				t.Fatalf("read %d (seq %d): %s", k, seq, o)
			}
			if count == 0 {
				head = seq
			}
			buffered[seq]++
			count++
			if count >= 50 {
				emitting = true
			}
			if !emitting {
				if rerr == nil {
					t.Fatalf("read %d (seq %d): returned a packet before playback started (only %d buffered)", k, seq, count)
				}

				continue
			}
			if buffered[head] == 0 {
				if rerr == nil {
					t.Fatalf("read %d: succeeded although the packet at the playout head %d has not arrived", k, head)
				}

				continue
			}
			if rerr != nil {
				t.Fatalf("read %d: failed (%v) although the packet at the playout head %d is buffered", k, rerr, head)
			}
			want := raw[head]
			got := append([]byte(nil), buf[:max(0, min(rn, len(buf)))]...)
			if rn == len(want) && rn > 12 && want[0]&0x20 != 0 {
				// padding filler octets are undefined by RFC 3550 (only the trailing count matters):
				// MarshalTo leaves whatever the caller's buffer held there, so mask them
				pad := int(want[len(want)-1])
				for i := len(want) - pad; i < len(want)-1 && i >= 12; i++ {
					got[i] = want[i]
				}
			}
			if rn != len(want) || !bytes.Equal(got, want) {
				t.Fatalf("read %d: expected the %d bytes that arrived for sequence number %d, got n=%d (first bytes % x ...)",
					k, len(want), head, rn, buf[:min(16, max(rn, 0))])
			}
			buffered[head]--
			count--
			head++
			successes++
		}
		_ = ic.Close()
		rec.Case(h.Sum(), (reordered || dups > 0) && successes > 0,
			[]string{cls("reordered", reordered), cls("dups", dups > 0), fmt.Sprintf("successful-reads>0=%v", successes > 0)},
			func() any {
				return map[string]any{"first_seq": first, "packets": n, "arrival_order_prefix": order[:min(len(order), 70)], "successful_reads": successes}
			})
	})
}
