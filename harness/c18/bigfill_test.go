package c18

import (
	"fmt"
	"testing"

	"github.com/pion/interceptor/pkg/jitterbuffer"
	"github.com/pion/interceptor/verifharness/kit"
	"github.com/pion/rtp"
	"pgregory.net/rapid"
)

// TestClearAfterLargeFill reaches fill levels the step-by-step state machines cannot: tens of thousands of packets buffered
// without a pop (a receiver that never plays out), among them the levels around whole multiples of 2^16 where 16-bit counters
// come back to their starting value. Packets are pushed from the newest to the oldest number, which is the cheap insertion
// order of the queue, with a generated share of duplicates of the number just pushed. The oracle is the Clear clause of the
// statement only: after Clear nothing buffered earlier is returned by any pop, peek or find, and a second batch pushed
// afterwards yields the objects of that batch and no others.
type failMsg string

func TestClearAfterLargeFill(t *testing.T) {
	rec := kit.NewRecorder("C18", "clear-after-large-fill",
		"JitterBuffer and PriorityQueue filled with n packets without a pop, n in {65535, 65536, 65537, 131072} or 1..70000, highest raw number first, duplicates in a row; "+
			"Clear(true/false); sampled PeekAtSequence / PopAtSequence / PopAtTimestamp / Pop / Find / PopAt; a second batch of 1..80; "+
			"non-trivial = n >= 65536; distinct by (n, start, clear flag, subject)")
	rapid.Check(t, func(t *rapid.T) {
		n := rapid.OneOf(rapid.SampledFrom([]int{65535, 65536, 65537, 131072}), rapid.IntRange(1, 70000)).Draw(t, "n")
		start := rapid.Uint16().Draw(t, "newest")
		dupEvery := rapid.SampledFrom([]int{0, 0, 3, 1000}).Draw(t, "dupEvery")
		reset := rapid.Bool().Draw(t, "reset")
		onQueue := rapid.Bool().Draw(t, "queueDirectly")
		probes := rapid.SliceOfN(rapid.Uint16(), 6, 6).Draw(t, "probes")
		
		second := rapid.IntRange(1, 80).Draw(t, "secondBatch")
		secondStart := rapid.Uint16().Draw(t, "secondStart")
		// the queue is ordered by the raw 16-bit number: pushing from high to low raw values (each number m times in a row when more
		// than 2^16 packets are buffered) keeps every insertion at the front
		m := (n + 65535) / 65536
		idxAt := func(i int) int {
			if m == 1 && dupEvery > 0 {
				return i - i/dupEvery
			}

			return i / m
		}
		if int(start) < idxAt(n-1) {
			start = uint16(idxAt(n - 1)) //nolint:gosec
		}
		seqAt := func(i int) uint16 { return start - uint16(idxAt(i)) } //nolint:gosec
		probes = append(probes, start, start-1, seqAt(n-1), 0, 65535)
		old := make(map[*rtp.Packet]bool, n)
		mk := func(seq uint16) *rtp.Packet {
			return &rtp.Packet{Header: rtp.Header{SequenceNumber: seq, Timestamp: 1000 + uint32(seq)}, Payload: []byte{1}}
		}
		var fresh map[*rtp.Packet]bool
		failf := func(f string, a ...any) { panic(failMsg(fmt.Sprintf(f, a...))) } // raised inside the watchdog goroutine, reported below
		check := func(what string, pkt *rtp.Packet, err error) {
			if err != nil || pkt == nil {
				return
			}
			if old[pkt] {
				failf("%d packets buffered (newest %d), Clear(%v): %s returned packet %d that was buffered before the Clear", n, start, reset, what, pkt.SequenceNumber)
			}
			if fresh != nil && !fresh[pkt] {
				failf("%d packets buffered (newest %d), Clear(%v): %s returned a packet (number %d) that was never pushed", n, start, reset, what, pkt.SequenceNumber)
			}
		}
		o := kit.Guard(opDeadline*10, func() {
			if onQueue {
				q := jitterbuffer.NewQueue()
				for i := 0; i < n; i++ {
					p := mk(seqAt(i))
					old[p] = true
					q.Push(p, p.SequenceNumber)
				}
				q.Clear()
				if l := q.Length(); l != 0 {
					failf("%d packets buffered, Clear: Length() = %d", n, l)
				}
				for _, s := range probes {
					p, err := q.Find(s)
					check(fmt.Sprintf("Find(%d)", s), p, err)
					p, err = q.PopAt(s)
					check(fmt.Sprintf("PopAt(%d)", s), p, err)
					p, err = q.PopAtTimestamp(1000 + uint32(s))
					check(fmt.Sprintf("PopAtTimestamp(%d)", 1000+uint32(s)), p, err)
				}
				p, err := q.Pop()
				check("Pop()", p, err)
				fresh = map[*rtp.Packet]bool{}
				for i := 0; i < second; i++ {
					p := mk(secondStart + uint16(i)) //nolint:gosec
					fresh[p] = true
					q.Push(p, p.SequenceNumber)
				}
				if l := int(q.Length()); l != second {
					failf("%d packets buffered, Clear, %d pushed: Length() = %d", n, second, l)
				}
				for _, s := range probes {
					p, err := q.Find(s)
					check(fmt.Sprintf("second batch: Find(%d)", s), p, err)
				}
				for i := 0; i < second+2; i++ {
					p, err := q.Pop()
					check("second batch: Pop()", p, err)
					if i < second && (err != nil || p == nil) {
						failf("%d packets buffered, Clear, %d pushed: Pop number %d failed: %v", n, second, i, err)
					}
				}

				return
			}
			jb := jitterbuffer.New(jitterbuffer.WithMinimumPacketCount(10))
			for i := 0; i < n; i++ {
				p := mk(seqAt(i))
				old[p] = true
				jb.Push(p)
			}
			jb.Clear(reset)
			for _, s := range probes {
				p, err := jb.PeekAtSequence(s)
				check(fmt.Sprintf("PeekAtSequence(%d)", s), p, err)
				p, err = jb.PopAtSequence(s)
				check(fmt.Sprintf("PopAtSequence(%d)", s), p, err)
				p, err = jb.PopAtTimestamp(1000 + uint32(s))
				check(fmt.Sprintf("PopAtTimestamp(%d)", 1000+uint32(s)), p, err)
			}
			for _, s := range probes[:4] {
				jb.SetPlayoutHead(s)
				p, err := jb.Pop()
				check(fmt.Sprintf("Pop() at head %d", s), p, err)
				p, err = jb.Peek(true)
				check(fmt.Sprintf("Peek(true) at head %d", s), p, err)
			}
			fresh = map[*rtp.Packet]bool{}
			for i := 0; i < second; i++ {
				p := mk(secondStart + uint16(i)) //nolint:gosec
				fresh[p] = true
				jb.Push(p)
			}
			for _, s := range probes {
				p, err := jb.PeekAtSequence(s)
				check(fmt.Sprintf("second batch: PeekAtSequence(%d)", s), p, err)
				p, err = jb.PopAtSequence(s)
				check(fmt.Sprintf("second batch: PopAtSequence(%d)", s), p, err)
			}
		})
		if m, isFail := o.Panic.(failMsg); isFail {
			t.Fatalf("%s", string(m))
		}
		if !o.OK() {
			t.Fatalf("%d packets buffered (newest %d), Clear(%v), queue directly %v: %s", n, start, reset, onQueue, o)
		}
		rec.Case(kit.NewH().I(n, int(start), dupEvery, second).S(fmt.Sprint(reset, onQueue)).Sum(), n >= 65536, []string{fmt.Sprintf("queueDirectly=%v", onQueue), fmt.Sprintf("n>=65536=%v", n >= 65536)}, func() any {
			return map[string]any{"buffered": n, "newest": start, "clear_reset": reset, "queue_directly": onQueue, "second_batch": second}
		})
	})
}
