package c08

import (
	"testing"

	"github.com/pion/interceptor/pkg/rfc8888"
	"github.com/pion/interceptor/verifharness/kit"
)

// Plain regression checks for the confirmed findings of C08 (see /verif/KNOWN_FINDINGS.json).

func TestRegressOffsetSaturates(t *testing.T) {
	r := rfc8888.NewRecorder()
	r.AddPacket(at(0), 1, 10, 0)
	rep := r.BuildReport(at(70_000_000_000), 1200)
	if got := rep.ReportBlocks[0].MetricBlocks[0].ArrivalTimeOffset; got != 0x1FFE {
		kit.WriteReplay("TestRegressOffsetSaturates", []byte(`{"arrival_ns":0,"report_ns":70000000000}`))
		t.Fatalf("arrival 70 s before the report: offset %#x, want 0x1FFE", got)
	}
}

func TestRegressFirstCopyKept(t *testing.T) {
	r := rfc8888.NewRecorder()
	r.AddPacket(at(0), 1, 10, 0)
	r.AddPacket(at(500_000_000), 1, 10, 0)
	rep := r.BuildReport(at(1_000_000_000), 1200)
	if got := rep.ReportBlocks[0].MetricBlocks[0].ArrivalTimeOffset; got != 1024 {
		kit.WriteReplay("TestRegressFirstCopyKept", []byte(`{"arrivals_ns":[0,500000000],"report_ns":1000000000}`))
		t.Fatalf("duplicate 0.5 s after the first copy, report 1 s after it: offset %d, want 1024", got)
	}
}

func TestRegressSizeLimitWithPadding(t *testing.T) {
	for max := 20; max < 200; max++ {
		for streams := 1; streams <= 3; streams++ {
			r := rfc8888.NewRecorder()
			for s := 0; s < streams; s++ {
				for i := 0; i < 40; i++ {
					r.AddPacket(at(int64(i)), uint32(s+1), uint16(i), 0) //nolint:gosec
				}
			}
			if max < 12+8*streams {
				continue
			}
			raw, err := r.BuildReport(at(1_000_000), max).Marshal()
			if err != nil || len(raw) > max {
				kit.WriteReplay("TestRegressSizeLimitWithPadding", []byte(`{"note":"40 packets per stream, see test"}`))
				t.Fatalf("%d streams, max %d: marshalled %d bytes (err %v)", streams, max, len(raw), err)
			}
		}
	}
}
