package c08

import (
	"fmt"
	"sort"
	"testing"
	"time"

	"github.com/pion/interceptor/pkg/rfc8888"
	"github.com/pion/interceptor/verifharness/kit"
	"github.com/pion/rtcp"
	"pgregory.net/rapid"
)

// Step is one operation of a generated history (JSON for samples).
type Step struct {
	Report  bool   `json:"report,omitempty"`
	SSRC    uint32 `json:"ssrc,omitempty"`
	Seq     uint16 `json:"seq"`
	ECN     uint8  `json:"ecn,omitempty"`
	AtNS    int64  `json:"at_ns"` // arrival time / report time, ns after the epoch used by the case
	MaxSize int    `json:"max_size,omitempty"`
	// Run > 0: that many consecutive in-order packets of SSRC starting at Seq, 1 ms apart from AtNS on, with a report of up to MaxSize bytes after every 400
	Run int `json:"run,omitempty"`
	// Reports > 0 (with Report): that many reports in a row, 100 ms apart from AtNS on, each of up to MaxSize bytes (streams that stay silent for a long time)
	Reports int `json:"reports,omitempty"`
}

// refUnwrapper extends 16-bit sequence numbers by the nearest-value rule (steps here stay below 2^15), never below zero.
type refUnwrapper struct {
	init bool
	last int64
}

func (u *refUnwrapper) unwrap(seq uint16) int64 {
	if !u.init {
		u.init, u.last = true, int64(seq)

		return u.last
	}
	v := u.last + int64(int16(seq-uint16(u.last))) //nolint:gosec
	if v < 0 {
		v += 65536
	}
	u.last = v

	return v
}

type streamModel struct {
	unwrap  refUnwrapper
	init    bool
	cursor  int64
	highest int64
	first   map[int64]arrival // first copy that arrived at/after the cursor, not yet acknowledged
}

type arrival struct {
	at  int64
	ecn uint8
}

var epoch = time.Date(2024, 3, 1, 12, 0, 0, 0, time.UTC)

func at(ns int64) time.Time { return epoch.Add(time.Duration(ns)) }

func atoWant(reportNS, arrivalNS int64) map[uint16]bool {
	if arrivalNS > reportNS {
		return map[uint16]bool{0x1FFF: true}
	}
	d := reportNS - arrivalNS
	out := map[uint16]bool{}
	// floor(1024 * seconds), computed in integer nanoseconds; +-1 ns covers float64 rounding at exact boundaries
	for _, dd := range []int64{d - 1, d, d + 1} {
		if dd < 0 {
			dd = 0
		}
		v := dd / 1_000_000_000 * 1024 // whole seconds first: no overflow for hours
		v += dd % 1_000_000_000 * 1024 / 1_000_000_000
		if v >= 0x1FFE {
			v = 0x1FFE
		}
		if v == 0x1FFD && dd%1_000_000_000*1024%1_000_000_000 != 0 {
			// strictly between 8189/1024 s and 8190/1024 s: the floor is 0x1FFD, RFC 8888 section 3.1 says
			// "greater than 8189/1024 seconds -> 0x1FFE"; the statement does not choose, both are accepted
			out[0x1FFE] = true
		}
		out[uint16(v)] = true //nolint:gosec
	}

	return out
}

func ntp32Want(ns int64) uint32 {
	t := at(ns)
	sec := uint64(t.Unix()) + 2208988800 //nolint:gosec
	frac := uint64(t.Nanosecond()) * 65536 / 1_000_000_000

	return uint32(sec&0xffff)<<16 | uint32(frac) //nolint:gosec
}

// recModel is the reference model of a Recorder: one streamModel per SSRC.
type recModel struct {
	streams map[uint32]*streamModel
	classes map[string]bool
}

func newRecModel() *recModel {
	return &recModel{streams: map[uint32]*streamModel{}, classes: map[string]bool{}}
}

func (rm *recModel) clone() *recModel {
	c := newRecModel()
	for k, v := range rm.classes {
		c.classes[k] = v
	}
	for ssrc, m := range rm.streams {
		n := *m
		n.first = make(map[int64]arrival, len(m.first))
		for k, v := range m.first {
			n.first[k] = v
		}
		c.streams[ssrc] = &n
	}

	return c
}

func (rm *recModel) add(st Step) {
	classes := rm.classes
	m := rm.streams[st.SSRC]
	if m == nil {
		m = &streamModel{first: map[int64]arrival{}}
		rm.streams[st.SSRC] = m
	}
	u := m.unwrap.unwrap(st.Seq)
	if !m.init {
		m.init, m.cursor, m.highest = true, u, u
	}
	if u < m.cursor {
		classes["late-below-cursor"] = true

		return
	}
	if _, dup := m.first[u]; dup {
		classes["duplicate"] = true
	} else {
		if u < m.highest {
			classes["reorder"] = true
		}
		m.first[u] = arrival{at: st.AtNS, ecn: st.ECN}
	}
	if u > m.highest {
		m.highest = u
	}
}

// check judges one report built at st.AtNS with st.MaxSize and advances the model.
func (rm *recModel) check(rep *rtcp.CCFeedbackReport, st Step) error {
	classes, streams := rm.classes, rm.streams
	if rep == nil {
		return fmt.Errorf("BuildReport returned nil")
	}
	fail := func(f string, a ...any) error {
		return fmt.Errorf("report at %d ns, max size %d: %s", st.AtNS, st.MaxSize, fmt.Sprintf(f, a...))
	}
	{
		if want := ntp32Want(st.AtNS); rep.ReportTimestamp-want+1 > 2 {
			return fail("report timestamp %#x, want NTP32 of the report instant %#x", rep.ReportTimestamp, want)
		}
		n := len(streams)
		if len(rep.ReportBlocks) != n {
			return fail("%d report blocks for %d streams", len(rep.ReportBlocks), n)
		}
		share := 0
		if n > 0 {
			share = max((st.MaxSize-12-8*n)/2, 0) / n
		}
		seen := map[uint32]bool{}
		for _, blk := range rep.ReportBlocks {
			m := streams[blk.MediaSSRC]
			if m == nil || seen[blk.MediaSSRC] {
				return fail("unexpected or repeated block for SSRC %d", blk.MediaSSRC)
			}
			seen[blk.MediaSSRC] = true
			cnt := int64(len(blk.MetricBlocks))
			pending := int64(0)
			if len(m.first) > 0 {
				pending = m.highest - m.cursor + 1
			}
			if cnt == 0 {
				if pending > 0 && int64(share)-2 > 0 {
					return fail("SSRC %d: empty block although %d numbers [%d..%d] are pending and the size limit leaves room for %d", blk.MediaSSRC, pending, m.cursor, m.highest, share)
				}
				if pending > 0 { // everything pushed out by the size limit
					classes["truncated"] = true
					m.first = map[int64]arrival{}
					m.cursor = m.highest + 1
				}

				continue
			}
			// the range must end at the highest number received
			begin := m.highest - cnt + 1
			if uint16(begin) != blk.BeginSequence { //nolint:gosec
				return fail("SSRC %d: block [begin %d, %d entries] does not end at the highest number received %d (wire %d)", blk.MediaSSRC, blk.BeginSequence, cnt, m.highest, uint16(m.highest)) //nolint:gosec
			}
			if pending == 0 {
				return fail("SSRC %d: %d entries reported although nothing is pending (cursor %d, highest %d)", blk.MediaSSRC, cnt, m.cursor, m.highest)
			}
			if begin < m.cursor {
				return fail("SSRC %d: block begins at %d, before the cursor %d (numbers already acknowledged in a gap-free prefix)", blk.MediaSSRC, begin, m.cursor)
			}
			if begin > m.cursor {
				// truncation is only explained by the size limit, and the newest must be kept
				if cnt < min(pending, int64(share))-2 {
					return fail("SSRC %d: only the newest %d of %d pending numbers are reported although the size limit leaves room for %d per stream", blk.MediaSSRC, cnt, pending, share)
				}
				classes["truncated"] = true
				for s := range m.first {
					if s < begin {
						delete(m.first, s)
					}
				}
				m.cursor = begin
			}
			for k, mb := range blk.MetricBlocks {
				s := begin + int64(k)
				a, ok := m.first[s]
				if mb.Received != ok {
					if ok {
						return fail("SSRC %d: number %d (wire %d) arrived at %d ns but is reported lost", blk.MediaSSRC, s, uint16(s), a.at) //nolint:gosec
					}

					return fail("SSRC %d: number %d (wire %d) is reported received but no copy arrived (at/after the cursor)", blk.MediaSSRC, s, uint16(s)) //nolint:gosec
				}
				if !ok {
					if mb.ArrivalTimeOffset != 0 || mb.ECN != 0 {
						return fail("SSRC %d: lost number %d carries offset %#x / ECN %d", blk.MediaSSRC, s, mb.ArrivalTimeOffset, mb.ECN)
					}

					continue
				}
				want := atoWant(st.AtNS, a.at)
				if !want[mb.ArrivalTimeOffset] {
					return fail("SSRC %d: number %d first arrived at %d ns (report at %d ns, %.6f s earlier): arrival time offset %#x, want one of %v",
						blk.MediaSSRC, s, a.at, st.AtNS, float64(st.AtNS-a.at)/1e9, mb.ArrivalTimeOffset, keys(want))
				}
				if want[0x1FFE] {
					classes["offset-saturated"] = true
				}
				if want[0x1FFF] {
					classes["arrival-after-report"] = true
				}
				if uint8(mb.ECN) != a.ecn {
					return fail("SSRC %d: number %d ECN %d, recorded %d", blk.MediaSSRC, s, mb.ECN, a.ecn)
				}
			}
			// acknowledged: the gap-free received prefix
			for {
				if _, ok := m.first[m.cursor]; !ok {
					break
				}
				delete(m.first, m.cursor)
				m.cursor++
			}
		}
		if st.MaxSize >= 12+8*n {
			raw, err := rep.Marshal()
			if err != nil {
				return fail("report does not marshal: %v", err)
			}
			if len(raw) > st.MaxSize {
				return fail("marshalled report is %d bytes, maximum %d (%d streams: per-stream headers fit)", len(raw), st.MaxSize, n)
			}
			var back rtcp.CCFeedbackReport
			if err := back.Unmarshal(raw); err != nil {
				return fail("report does not parse back: %v", err)
			}
		}
	}

	return nil
}

// run executes a history against a fresh Recorder and the model; it returns the first discrepancy.
func run(steps []Step) (err error, reports int, classes map[string]bool) {
	r := rfc8888.NewRecorder()
	rm := newRecModel()
	for i, st := range steps {
		if st.Run > 0 {
			for k := 0; k < st.Run; k++ {
				one := Step{SSRC: st.SSRC, Seq: st.Seq + uint16(k), AtNS: st.AtNS + int64(k)*1_000_000} //nolint:gosec
				r.AddPacket(at(one.AtNS), one.SSRC, one.Seq, 0)
				rm.add(one)
				if k%400 == 399 {
					rs := Step{Report: true, AtNS: one.AtNS + 500_000, MaxSize: st.MaxSize}
					rep := r.BuildReport(at(rs.AtNS), rs.MaxSize)
					reports++
					if e := rm.check(rep, rs); e != nil {
						return fmt.Errorf("step %d (in-order run, packet %d of %d, report #%d): %w", i, k, st.Run, reports, e), reports, rm.classes
					}
				}
			}
			rm.classes["long-in-order-run"] = true

			continue
		}
		if !st.Report {
			o := kit.Guard(0, func() { r.AddPacket(at(st.AtNS), st.SSRC, st.Seq, st.ECN) })
			if !o.OK() {
				return fmt.Errorf("step %d AddPacket: %s", i, o), reports, rm.classes
			}
			rm.add(st)

			continue
		}
		if st.Reports > 0 {
			for k := 0; k < st.Reports; k++ {
				one := Step{Report: true, AtNS: st.AtNS + int64(k)*100_000_000, MaxSize: st.MaxSize}
				rp := r.BuildReport(at(one.AtNS), one.MaxSize)
				reports++
				if e := rm.check(rp, one); e != nil {
					return fmt.Errorf("step %d (report %d of %d in a row, report #%d): %w", i, k+1, st.Reports, reports, e), reports, rm.classes
				}
			}
			rm.classes["many-reports-in-a-row"] = true

			continue
		}
		var rep *rtcp.CCFeedbackReport
		o := kit.Guard(0, func() { rep = r.BuildReport(at(st.AtNS), st.MaxSize) })
		if !o.OK() {
			return fmt.Errorf("step %d BuildReport: %s", i, o), reports, rm.classes
		}
		reports++
		if e := rm.check(rep, st); e != nil {
			return fmt.Errorf("step %d (report #%d): %w", i, reports, e), reports, rm.classes
		}
	}

	return nil, reports, rm.classes
}

func keys(m map[uint16]bool) []string {
	var out []string
	for k := range m {
		out = append(out, fmt.Sprintf("%#x", k))
	}
	sort.Strings(out)

	return out
}

func genHistory(t *rapid.T) []Step {
	nss := rapid.IntRange(1, 4).Draw(t, "streams")
	ssrcs := make([]uint32, nss)
	seqs := make([]uint16, nss)
	for i := range ssrcs {
		ssrcs[i] = uint32(1000 + i) //nolint:gosec
		seqs[i] = kit.U16Boundary().Draw(t, "startSeq")
	}
	n := rapid.IntRange(1, 300).Draw(t, "n")
	clock := rapid.Int64Range(0, 3_000_000_000).Draw(t, "t0")
	dseq := rapid.OneOf(
		rapid.Just(1), rapid.Just(1), rapid.Just(1), rapid.Just(1), rapid.Just(1),
		rapid.IntRange(2, 5), rapid.Just(0), rapid.IntRange(-20, -1), rapid.IntRange(50, 300), rapid.IntRange(-300, -20),
	)
	dclock := rapid.OneOf(
		rapid.SampledFrom([]int64{0, 1, 976_562, 976_563, 1_000_000, 20_000_000, 1_000_000_000, 7_996_000_000, 7_997_070_312, 7_998_046_875, 8_000_000_000, 10_000_000_000, 63_990_000_000, 64_000_000_000, 70_000_000_000, 3_600_000_000_000, 86_400_000_000_000, 9_010_000_000_000_000}), // ... an hour, a day, 104.3 days (2^63/1024 ns)
		rapid.SampledFrom([]int64{1_000_000, 1_000_000, 5_000_000, 20_000_000}),
		rapid.Int64Range(0, 50_000_000),
	)
	maxSize := rapid.OneOf(
		rapid.IntRange(0, 3000), rapid.IntRange(0, 120), rapid.Just(1200), rapid.IntRange(20, 400), rapid.IntRange(3000, 32768),
	)
	var steps []Step
	runAt := -1
	if rapid.IntRange(0, 39).Draw(t, "longRun") == 0 { // more than half the sequence space received strictly in order, then the ordinary mix goes on
		runAt = rapid.IntRange(0, n-1).Draw(t, "runAt")
	}
	for i := 0; i < n; i++ {
		clock += dclock.Draw(t, "dt")
		if i == runAt {
			k := rapid.IntRange(0, nss-1).Draw(t, "runStream")
			length := rapid.IntRange(32000, 40000).Draw(t, "runLength")
			seqs[k]++
			steps = append(steps, Step{SSRC: ssrcs[k], Seq: seqs[k], AtNS: clock, Run: length, MaxSize: rapid.SampledFrom([]int{1200, 4000, 32768}).Draw(t, "runMax")})
			seqs[k] += uint16(length - 1) //nolint:gosec
			clock += int64(length) * 1_000_000

			continue
		}
		if rapid.IntRange(0, 11).Draw(t, "rep") == 0 {
			st := Step{Report: true, AtNS: clock, MaxSize: maxSize.Draw(t, "max")}
			if rapid.IntRange(0, 29).Draw(t, "manyReports") == 0 { // more than a minute of reports without a packet
				st.Reports = rapid.IntRange(590, 720).Draw(t, "reportsInARow")
				clock += int64(st.Reports) * 100_000_000
			}
			steps = append(steps, st)

			continue
		}
		k := rapid.IntRange(0, nss-1).Draw(t, "stream")
		seqs[k] += uint16(dseq.Draw(t, "dseq")) //nolint:gosec
		arr := clock
		switch rapid.IntRange(0, 9).Draw(t, "jitter") {
		case 0: // stamped slightly in the future (arrives "after" an upcoming report instant)
			arr += rapid.Int64Range(1, 30_000_000).Draw(t, "ahead")
		case 1:
			arr -= rapid.Int64Range(0, min(clock, 5_000_000)).Draw(t, "behind")
		}
		steps = append(steps, Step{SSRC: ssrcs[k], Seq: seqs[k], ECN: uint8(rapid.IntRange(0, 3).Draw(t, "ecn")), AtNS: arr}) //nolint:gosec
		if rapid.IntRange(0, 14).Draw(t, "dupnow") == 0 {                                                                     // duplicate with a later arrival time and the same ECN
			steps = append(steps, Step{SSRC: ssrcs[k], Seq: seqs[k], ECN: steps[len(steps)-1].ECN, AtNS: arr + rapid.Int64Range(1, 40_000_000).Draw(t, "dupdelay")})
		}
	}
	clock += dclock.Draw(t, "dt")
	steps = append(steps, Step{Report: true, AtNS: clock, MaxSize: maxSize.Draw(t, "max")})

	return steps
}

func TestRecorderReports(t *testing.T) {
	rec := kit.NewRecorder("C08", "recorder-model",
		"random arrival histories over 1..4 SSRCs (loss, reordering, duplicates with later arrival times, wrap, clock steps 0..1 h, arrivals after the "+
			"report instant) interleaved with BuildReport at maximum sizes 0..32768, judged by a per-SSRC reference model; "+
			"non-trivial = >= 2 reports and (duplicate or reorder or truncation by size); distinct by history")
	rapid.Check(t, func(t *rapid.T) {
		steps := genHistory(t)
		err, reports, classes := run(steps)
		if err != nil {
			t.Fatalf("%v", err)
		}
		h := kit.NewH()
		for _, s := range steps {
			h.U(uint64(s.SSRC), uint64(s.Seq), uint64(s.AtNS), uint64(s.MaxSize), uint64(s.Run), uint64(s.Reports)) //nolint:gosec
		}
		var cl []string
		for c := range classes {
			cl = append(cl, c)
		}
		sort.Strings(cl)
		rec.Case(h.Sum(), reports >= 2 && (classes["duplicate"] || classes["reorder"] || classes["truncated"]), cl, func() any {
			return map[string]any{"steps": steps[:min(len(steps), 50)], "total_steps": len(steps), "reports": reports, "classes": cl}
		})
	})
}
