package c08

import (
	"fmt"
	"sort"
	"sync"
	"testing"
	"time"

	"github.com/pion/interceptor"
	"github.com/pion/interceptor/pkg/rfc8888"
	"github.com/pion/interceptor/verifharness/kit"
	"github.com/pion/rtcp"
	"github.com/pion/rtp"
	"pgregory.net/rapid"
)

// stepClock hands out strictly increasing model instants (1 ms apart) and remembers which goroutine asked.
type stepClock struct {
	mu      sync.Mutex
	n       int64
	harness int64
	calls   []clockCall
}

type clockCall struct {
	ns          int64
	fromHarness bool
}

func (c *stepClock) now() time.Time {
	id := kit.GoID()
	c.mu.Lock()
	defer c.mu.Unlock()
	c.n++
	ns := c.n * 1_000_000
	c.calls = append(c.calls, clockCall{ns: ns, fromHarness: id == c.harness})

	return at(ns)
}

// TestInterceptorReports drives the rfc8888 interceptor end to end: packets are read through
// BindRemoteStream while its free-running ticker builds reports; every report that reaches the RTCP writer
// must be what the reference model predicts for the packets handed over before that tick. The one packet that
// may be in flight between the reader and the report loop at a tick is handled by tracking both possibilities.
func TestInterceptorReports(t *testing.T) {
	rec := kit.NewRecorder("C08", "interceptor-end-to-end",
		"20..200 packets over 1..3 SSRCs read through the interceptor (model clock via SenderNow, 300 us ticker, generated pauses) and every "+
			"written report checked against the model for the packets handed over before its tick; non-trivial = >= 2 reports carrying metric blocks "+
			"and a loss, reordering or duplicate in the history; distinct by history")
	rapid.Check(t, func(t *rapid.T) {
		clk := &stepClock{harness: kit.GoID()}
		f, err := rfc8888.NewSenderInterceptor(rfc8888.SenderNow(clk.now), rfc8888.SendInterval(300*time.Microsecond))
		if err != nil {
			t.Fatalf("factory: %v", err)
		}
		ic, err := f.NewInterceptor("")
		if err != nil {
			t.Fatalf("NewInterceptor: %v", err)
		}
		sink := &kit.RTCPSink{}
		ic.BindRTCPWriter(sink)
		nss := rapid.IntRange(1, 3).Draw(t, "streams")
		srcs := make([]*kit.ByteSource, nss)
		readers := make([]interceptor.RTPReader, nss)
		infos := make([]*interceptor.StreamInfo, nss)
		seqs := make([]uint16, nss+1) // one more SSRC that has no binding of its own: its packets arrive through another stream's reader
		seqs[nss] = kit.U16Boundary().Draw(t, "startSeqUnbound")
		for i := range srcs {
			srcs[i] = &kit.ByteSource{}
			infos[i] = &interceptor.StreamInfo{SSRC: uint32(1000 + i)} //nolint:gosec
			readers[i] = ic.BindRemoteStream(infos[i], srcs[i])
			seqs[i] = kit.U16Boundary().Draw(t, "startSeq")
		}
		n := rapid.IntRange(20, 200).Draw(t, "n")
		dseq := rapid.OneOf(rapid.Just(1), rapid.Just(1), rapid.Just(1), rapid.IntRange(2, 5), rapid.Just(0), rapid.IntRange(-10, -1), rapid.IntRange(20, 120))
		h := kit.NewH()
		type fed struct {
			ssrc uint32
			seq  uint16
		}
		var feds []fed
		irregular := false
		for i := 0; i < n; i++ {
			// the report is keyed by the SSRC the packet carries, whichever binding it is read through
			k := rapid.OneOf(rapid.IntRange(0, nss-1), rapid.IntRange(0, nss)).Draw(t, "stream")
			via := k
			if k == nss || rapid.IntRange(0, 7).Draw(t, "viaOther") == 0 {
				via = rapid.IntRange(0, nss-1).Draw(t, "via")
			}
			d := dseq.Draw(t, "dseq")
			if d != 1 {
				irregular = true
			}
			seqs[k] += uint16(d) //nolint:gosec
			pause := rapid.IntRange(0, 9).Draw(t, "pause") == 0
			h.U(uint64(k), uint64(seqs[k]))
			raw, _ := (&rtp.Packet{Header: rtp.Header{Version: 2, SSRC: uint32(1000 + k), SequenceNumber: seqs[k]}, Payload: []byte{1}}).Marshal() //nolint:gosec
			srcs[via].Push(raw)
			buf := kit.DirtyBuffer(1500)
			var rerr error
			o := kit.Guard(0, func() {
				clk.mu.Lock()
				clk.harness = kit.GoID() // the guarded call runs on a helper goroutine
				clk.mu.Unlock()
				_, _, rerr = readers[via].Read(buf, interceptor.Attributes{})
			})
			if !o.OK() {
				_ = ic.Close()
				t.Fatalf("Read of packet %d: %s", i, o)
			}
			if rerr != nil {
				_ = ic.Close()
				t.Fatalf("Read of packet %d failed: %v", i, rerr)
			}
			feds = append(feds, fed{ssrc: uint32(1000 + k), seq: seqs[k]}) //nolint:gosec
			if pause {
				time.Sleep(400 * time.Microsecond)
			}
		}
		// a stream may be removed right after its last packets were read: what arrived before still belongs in the next report
		if rapid.IntRange(0, 2).Draw(t, "unbindAtEnd") == 0 {
			k := rapid.IntRange(0, nss-1).Draw(t, "unbindStream")
			if o := kit.Guard(0, func() { ic.UnbindRemoteStream(infos[k]) }); !o.OK() {
				t.Fatalf("UnbindRemoteStream: %s", o)
			}
		}
		// wait for two more complete reports after the last packet, then stop
		base := sink.Len()
		if !kit.Eventually(5*time.Second, func() bool { return sink.Len() >= base+2 }) {
			_ = ic.Close()
			t.Fatalf("no report within 5 s after the last packet (interval 300 us)")
		}
		if o := kit.Guard(0, func() { _ = ic.Close() }); !o.OK() {
			t.Fatalf("Close: %s", o)
		}
		// reconstruct the history: harness clock calls are the arrivals (in order), loop calls are the ticks
		clk.mu.Lock()
		calls := append([]clockCall(nil), clk.calls...)
		clk.mu.Unlock()
		sort.Slice(calls, func(a, b int) bool { return calls[a].ns < calls[b].ns })
		reports := sink.Calls()
		type cand struct {
			m    *recModel
			next int // index of the next arrival not yet added
		}
		cands := []cand{{m: newRecModel()}}
		arrivalIdx, tick := 0, 0
		arrivalNS := make([]int64, 0, len(feds))
		for _, c := range calls {
			if c.fromHarness {
				arrivalNS = append(arrivalNS, c.ns)
			}
		}
		if len(arrivalNS) != len(feds) {
			t.Fatalf("harness: %d clock calls from the reader for %d packets", len(arrivalNS), len(feds))
		}
		withBlocks := 0
		for _, c := range calls {
			if c.fromHarness {
				arrivalIdx++

				continue
			}
			if tick >= len(reports) {
				break // a tick whose report was not written before Close
			}
			rp := reports[tick]
			tick++
			if len(rp.Pkts) != 1 {
				t.Fatalf("tick %d wrote %d packets", tick, len(rp.Pkts))
			}
			rep, ok := rp.Pkts[0].(*rtcp.CCFeedbackReport)
			if !ok {
				t.Fatalf("tick %d wrote a %T", tick, rp.Pkts[0])
			}
			for _, b := range rep.ReportBlocks {
				if len(b.MetricBlocks) > 0 {
					withBlocks++

					break
				}
			}
			st := Step{Report: true, AtNS: c.ns, MaxSize: 1200}
			var survivors []cand
			var firstErr error
			for _, cd := range cands {
				// option A: everything that asked for its arrival time before the tick was handed over;
				// option B: the last of those was still in flight
				for _, upto := range []int{arrivalIdx, arrivalIdx - 1} {
					if upto < cd.next || upto < 0 {
						continue
					}
					m := cd.m.clone()
					for j := cd.next; j < upto; j++ {
						m.add(Step{SSRC: feds[j].ssrc, Seq: feds[j].seq, AtNS: arrivalNS[j]})
					}
					if e := m.check(rep, st); e != nil {
						if firstErr == nil {
							firstErr = e
						}

						continue
					}
					survivors = append(survivors, cand{m: m, next: upto})
				}
			}
			if len(survivors) == 0 {
				t.Fatalf("report #%d (tick at %d ns, %d packets handed over before it) matches no admissible history: %v", tick, c.ns, arrivalIdx, firstErr)
			}
			if len(survivors) > 4 {
				survivors = survivors[:4]
			}
			cands = survivors
		}
		if tick < 2 {
			t.Fatalf("harness: fewer than two ticks observed")
		}
		rec.Case(h.Sum(), withBlocks >= 2 && irregular, []string{fmt.Sprintf("reports-with-blocks>=2=%v", withBlocks >= 2), cls("irregular", irregular)}, func() any {
			return map[string]any{"packets": len(feds), "streams": nss, "reports_written": len(reports), "reports_with_metric_blocks": withBlocks, "first_packets": feds[:min(len(feds), 30)]}
		})
	})
}

func cls(name string, on bool) string {
	if on {
		return name + "=yes"
	}

	return name + "=no"
}
