package c10

import "testing"

// Schedule-dependent regressions: each program is run several times (under -race in the registered commands).

func regress(t *testing.T, p *Program, times int) {
	t.Helper()
	for i := 0; i < times; i++ {
		if v := runProgram(p); v != "" {
			t.Fatalf("%+v: %s", *p, v)
		}
	}
}

func TestRegressRtpfbConcurrentFeedback(t *testing.T) {
	regress(t, &Program{Member: "rtpfb", Writers: 2, RTCPReaders: 3, Ops: 120, Seed: 11}, 5)
}

func TestRegressRfc8888ReadAfterClose(t *testing.T) {
	regress(t, &Program{Member: "rfc8888", Writers: 1, Readers: 2, Lifecycle: true, CloseEarly: true, Ops: 150, Seed: 3}, 3)
}

func TestRegressIntervalPLIBindAfterClose(t *testing.T) {
	regress(t, &Program{Member: "intervalpli", Writers: 1, Readers: 1, Lifecycle: true, CloseEarly: true, Ops: 150, Seed: 5}, 3)
}
