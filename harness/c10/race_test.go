package c10

import (
	"encoding/json"
	"fmt"
	"os"
	"runtime"
	"sync"
	"sync/atomic"
	"testing"
	"time"

	"github.com/pion/interceptor"
	"github.com/pion/interceptor/verifharness/kit"
	"github.com/pion/rtcp"
	"github.com/pion/rtp"
	"pgregory.net/rapid"
)

// Program is one generated concurrent program (JSON: it doubles as journal entry and replay file).
type Program struct {
	Member      string `json:"member"`
	Writers     int    `json:"writers"`
	SameStream  bool   `json:"same_stream"`
	Readers     int    `json:"readers"`
	RTCPReaders int    `json:"rtcp_readers"`
	Observer    bool   `json:"observer"`
	Lifecycle   bool   `json:"lifecycle"`
	CloseEarly  bool   `json:"close_early"`
	UnbindLive  bool   `json:"unbind_live"` // the lifecycle goroutine also unbinds / re-binds streams that carry traffic
	ForeignSSRC bool   `json:"foreign_ssrc,omitempty"` // writers now and then send a packet of an SSRC that has no binding of its own (a repair packet on the media writer)
	Ops         int    `json:"ops"`
	Seed        uint64 `json:"seed"`
}

const (
	twccID   = 5
	interval = 500 * time.Microsecond
)

type xs uint64

func (x *xs) next() uint64 {
	v := uint64(*x)
	v ^= v << 13
	v ^= v >> 7
	v ^= v << 17
	*x = xs(v)

	return v
}

func (x *xs) perturb() {
	switch x.next() % 8 {
	case 0:
		runtime.Gosched()
	case 1:
		time.Sleep(time.Duration(x.next()%200) * time.Microsecond)
	}
}

// runProgram executes p; it returns a description of a violated expectation (deadlock, lost update) or "".
// Data races are reported by the race detector, which stops the process (the driver turns the journal into the replay).
func runProgram(p *Program) string { //nolint:cyclop,gocognit
	kit.Idle()
	rig, err := kit.NewRig(kit.MembersFor(p.Member), interval)
	if err != nil {
		return "harness: " + err.Error()
	}
	rig.BindRTCP()
	base := kit.StableGoroutines()
	nLocal, nRemote := 2, 2
	localInfos := make([]*interceptor.StreamInfo, nLocal)
	sinks := make([]*kit.RTPSink, nLocal)
	writers := make([]interceptor.RTPWriter, nLocal)
	for i := range writers {
		localInfos[i] = kit.LocalInfo(uint32(0x6001+i), twccID, true, true) //nolint:gosec
		sinks[i] = &kit.RTPSink{}
		writers[i] = rig.Chain.BindLocalStream(localInfos[i], sinks[i])
	}
	remoteInfos := make([]*interceptor.StreamInfo, nRemote)
	srcs := make([]*kit.ByteSource, nRemote)
	readers := make([]interceptor.RTPReader, nRemote)
	for i := range readers {
		remoteInfos[i] = kit.RemoteInfo(uint32(0x7001+i), twccID) //nolint:gosec
		srcs[i] = &kit.ByteSource{}
		readers[i] = rig.Chain.BindRemoteStream(remoteInfos[i], srcs[i])
	}
	// the statistics recorders are started asynchronously at bind time and only count "since active"
	kit.WaitGoroutines(base, 10*time.Second)
	var twOut, twIn atomic.Uint32
	var wrote [2]atomic.Int64
	var lastSeq0 atomic.Uint32 // the sequence number writer 0 sent last: NACKs ask for numbers just behind it, again and again
	var accepted [2]atomic.Int64
	var wg sync.WaitGroup
	stopAux := make(chan struct{})
	var closeOnce sync.Once
	closeChain := func() { closeOnce.Do(func() { _ = rig.Chain.Close() }) }
	for w := 0; w < p.Writers; w++ {
		wg.Add(1)
		go func(w int) {
			defer wg.Done()
			x := xs(p.Seed + uint64(w)*0x9E3779B97F4A7C15 | 1) //nolint:gosec
			stream := w % nLocal
			if p.SameStream {
				stream = 0
			}
			for k := 0; k < p.Ops; k++ {
				h := kit.WithTWCC(rtp.Header{Version: 2, SSRC: localInfos[stream].SSRC, PayloadType: 96, SequenceNumber: uint16(w*10000 + k), Timestamp: uint32(k) * 3000}, twccID, uint16(twOut.Add(1))) //nolint:gosec
				wrote[stream].Add(1)
				if _, err := writers[stream].Write(&h, kit.FillBytes(int(x.next()%1200), x.next()), interceptor.Attributes{}); err == nil {
					accepted[stream].Add(1)
				}
				if w == 0 {
					lastSeq0.Store(uint32(h.SequenceNumber))
				}
				if p.ForeignSSRC && x.next()%8 == 0 {
					hf := kit.WithTWCC(rtp.Header{Version: 2, SSRC: 0xEEEE, PayloadType: 97, SequenceNumber: uint16(k)}, twccID, uint16(twOut.Add(1))) //nolint:gosec
					_, _ = writers[stream].Write(&hf, []byte{0, 1, 2}, interceptor.Attributes{})
				}
				x.perturb()
			}
		}(w)
	}
	for r := 0; r < p.Readers; r++ {
		wg.Add(1)
		go func(r int) {
			defer wg.Done()
			x := xs(p.Seed + uint64(r+100)*0x9E3779B97F4A7C15 | 1) //nolint:gosec
			stream := r % nRemote
			buf := make([]byte, 1700)
			for k := 0; k < p.Ops; k++ {
				h := kit.WithTWCC(rtp.Header{Version: 2, SSRC: remoteInfos[stream].SSRC, PayloadType: 96, SequenceNumber: uint16(r*10000 + k + int(x.next()%3)), Timestamp: uint32(k) * 3000}, twccID, uint16(twIn.Add(1))) //nolint:gosec
				raw, _ := (&rtp.Packet{Header: h, Payload: kit.FillBytes(int(x.next()%600), x.next())}).Marshal()
				srcs[stream].Push(raw)
				_, _, _ = readers[stream].Read(buf, interceptor.Attributes{})
				x.perturb()
			}
		}(r)
	}
	for r := 0; r < p.RTCPReaders; r++ {
		wg.Add(1)
		go func(r int) {
			defer wg.Done()
			x := xs(p.Seed + uint64(r+200)*0x9E3779B97F4A7C15 | 1) //nolint:gosec
			buf := make([]byte, 1700)
			for k := 0; k < p.Ops/2+1; k++ {
				var pkts []rtcp.Packet
				cur := uint16(twOut.Load()) //nolint:gosec
				switch x.next() % 5 {
				case 0:
					pkts = append(pkts, &rtcp.ReceiverReport{SSRC: 9, Reports: []rtcp.ReceptionReport{{SSRC: 0x6001, LastSequenceNumber: uint32(k), LastSenderReport: 1, Delay: 2}}}) //nolint:gosec
				case 1:
					id := uint16(k) //nolint:gosec
					if x.next()%3 != 0 { // mostly numbers that were sent a moment ago (several requests for one number are in progress at once)
						id = uint16(lastSeq0.Load()) - uint16(x.next()%6) //nolint:gosec
					}
					pkts = append(pkts, &rtcp.TransportLayerNack{SenderSSRC: 9, MediaSSRC: 0x6001 + uint32(x.next()%2), Nacks: []rtcp.NackPair{{PacketID: id, LostPackets: 7}}}) //nolint:gosec
				case 2: // transport-cc feedback about recently sent numbers
					n := 8
					fb := &rtcp.TransportLayerCC{SenderSSRC: 9, MediaSSRC: 0x6001, BaseSequenceNumber: cur - uint16(n), PacketStatusCount: uint16(n), ReferenceTime: uint32(k + 1), FbPktCount: uint8(k), //nolint:gosec
						PacketChunks: []rtcp.PacketStatusChunk{&rtcp.RunLengthChunk{PacketStatusSymbol: rtcp.TypeTCCPacketReceivedSmallDelta, RunLength: uint16(n)}}} //nolint:gosec
					for i := 0; i < n; i++ {
						fb.RecvDeltas = append(fb.RecvDeltas, &rtcp.RecvDelta{Type: rtcp.TypeTCCPacketReceivedSmallDelta, Delta: 1000})
					}
					fb.Header = rtcp.Header{Count: rtcp.FormatTCC, Type: rtcp.TypeTransportSpecificFeedback, Padding: true, Length: 7}
					pkts = append(pkts, fb)
				case 3:
					pkts = append(pkts, &rtcp.CCFeedbackReport{SenderSSRC: 9, ReportTimestamp: uint32(k), ReportBlocks: []rtcp.CCFeedbackReportBlock{{MediaSSRC: 0x6001, BeginSequence: uint16(k), //nolint:gosec
						MetricBlocks: []rtcp.CCFeedbackMetricBlock{{Received: true, ArrivalTimeOffset: 5}, {}, {Received: true, ArrivalTimeOffset: 2}}}}})
				default:
					pkts = append(pkts, &rtcp.SenderReport{SSRC: 0x7001, NTPTime: uint64(k) << 32, RTPTime: 1}, //nolint:gosec
						&rtcp.ExtendedReport{SenderSSRC: 9, Reports: []rtcp.ReportBlock{&rtcp.DLRRReportBlock{Reports: []rtcp.DLRRReport{{SSRC: 0x7001, LastRR: 1, DLRR: 1}}}}})
				}
				raw, err := rtcp.Marshal(pkts)
				if err != nil {
					continue
				}
				rig.RTCPSrc.Push(raw)
				_, _, _ = rig.RTCPIn.Read(buf, interceptor.Attributes{})
				x.perturb()
			}
		}(r)
	}
	var aux sync.WaitGroup
	if p.Observer {
		aux.Add(1)
		go func() {
			defer aux.Done()
			x := xs(p.Seed | 1)
			for {
				select {
				case <-stopAux:
					return
				default:
				}
				for _, m := range rig.Members {
					if m.Stats != nil {
						if g := m.Stats(); g != nil {
							_ = g.Get(0x6001)
							_ = g.Get(0x7001)
						}
					}
					if m.BWE != nil {
						if e := m.BWE(); e != nil {
							_ = e.GetTargetBitrate()
							_ = e.GetStats()
						}
					}
					if m.Pacing != nil {
						m.Pacing.SetRate("rig", 400_000_000+int(x.next()%1000))
					}
				}
				x.perturb()
				runtime.Gosched()
			}
		}()
	}
	if p.Lifecycle {
		aux.Add(1)
		go func() {
			defer aux.Done()
			x := xs(p.Seed + 77 | 1)
			for k := 0; ; k++ {
				select {
				case <-stopAux:
					return
				default:
				}
				li := kit.LocalInfo(uint32(0x9000+k%3), twccID, true, true) //nolint:gosec
				ri := kit.RemoteInfo(uint32(0x9100+k%3), twccID)            //nolint:gosec
				w := rig.Chain.BindLocalStream(li, &kit.RTPSink{})
				src := &kit.ByteSource{}
				r := rig.Chain.BindRemoteStream(ri, src)
				h := kit.WithTWCC(rtp.Header{Version: 2, SSRC: li.SSRC, SequenceNumber: uint16(k)}, twccID, uint16(twOut.Add(1))) //nolint:gosec
				_, _ = w.Write(&h, []byte{1, 2, 3}, interceptor.Attributes{})
				hr := kit.WithTWCC(rtp.Header{Version: 2, SSRC: ri.SSRC, SequenceNumber: uint16(k)}, twccID, uint16(twIn.Add(1))) //nolint:gosec
				raw, _ := (&rtp.Packet{Header: hr, Payload: []byte{1}}).Marshal()
				src.Push(raw)
				_, _, _ = r.Read(make([]byte, 1500), interceptor.Attributes{})
				x.perturb()
				rig.Chain.UnbindLocalStream(li)
				rig.Chain.UnbindRemoteStream(ri)
				if p.UnbindLive && k%2 == 1 {
					// Unbind racing with traffic on the same stream: writers and readers keep using what Bind returned to them
					rig.Chain.UnbindLocalStream(localInfos[1])
					rig.Chain.UnbindRemoteStream(remoteInfos[1])
					x.perturb()
					rig.Chain.BindLocalStream(localInfos[1], sinks[1])
					rig.Chain.BindRemoteStream(remoteInfos[1], srcs[1])
				}
				if p.UnbindLive && k%4 == 2 {
					// the first stream is bound again while it carries traffic, without an Unbind (a renegotiation): writers keep the
					// writer of the earlier Bind, feedback about the stream keeps arriving
					rig.Chain.BindLocalStream(localInfos[0], sinks[0])
				}
				if p.CloseEarly && k == 3 {
					closeChain() // Close racing with traffic
				}
			}
		}()
	}
	if o := kit.Guard(30*time.Second, wg.Wait); !o.OK() {
		return fmt.Sprintf("traffic goroutines did not finish (deadlock?): %s\n%s", o, allStacks())
	}
	close(stopAux)
	if o := kit.Guard(20*time.Second, aux.Wait); !o.OK() {
		return fmt.Sprintf("observer/lifecycle goroutines did not finish (deadlock?): %s\n%s", o, allStacks())
	}
	// conservation (only when the interceptor was open for the whole run)
	if !p.CloseEarly && !p.UnbindLive && !p.ForeignSSRC {
		time.Sleep(3 * interval)
		for _, m := range rig.Members {
			if m.Stats != nil && m.Stats() != nil {
				for i := 0; i < nLocal; i++ {
					if s := m.Stats().Get(localInfos[i].SSRC); s != nil && int64(s.OutboundRTPStreamStats.PacketsSent) != wrote[i].Load() { //nolint:gosec
						return fmt.Sprintf("stats lost updates: %d packets written on ssrc %#x, PacketsSent = %d", wrote[i].Load(), localInfos[i].SSRC, s.OutboundRTPStreamStats.PacketsSent)
					}
				}
			}
		}
		// (in a chain an outer FEC member writes repair packets through the same binding, which the sender
		// report counts as well - so the exact count is only asserted for the interceptor on its own)
		if p.Member == "report-sender" {
			for i := 0; i < nLocal; i++ {
				want := wrote[i].Load()
				ok := kit.Eventually(5*time.Second, func() bool {
					var last *rtcp.SenderReport
					for _, c := range rig.RTCPSink.Calls() {
						for _, pk := range c.Pkts {
							if sr, isSR := pk.(*rtcp.SenderReport); isSR && sr.SSRC == localInfos[i].SSRC {
								last = sr
							}
						}
					}

					return last != nil && int64(last.PacketCount) == want
				})
				if !ok {
					return fmt.Sprintf("sender report lost updates: %d packets written on ssrc %#x, no sender report with that packet count within 5 s", want, localInfos[i].SSRC)
				}
			}
		}
		if p.Member == "nack-responder-rtx" {
			// RTX sequence numbers are allocated when a packet is stored, by writers running in parallel: ask for everything that can still be
			// in the histories and look at the numbers the retransmissions carry - an allocation handed out twice shows as a duplicate
			buf := make([]byte, 1700)
			for i := 0; i < nLocal; i++ {
				for w := 0; w < p.Writers; w++ {
					for k := 0; k < p.Ops; k += 16 {
						raw, err := rtcp.Marshal([]rtcp.Packet{&rtcp.TransportLayerNack{SenderSSRC: 9, MediaSSRC: localInfos[i].SSRC, Nacks: []rtcp.NackPair{{PacketID: uint16(w*10000 + k), LostPackets: 0x7FFF}}}}) //nolint:gosec
						if err != nil {
							continue
						}
						rig.RTCPSrc.Push(raw)
						_, _, _ = rig.RTCPIn.Read(buf, interceptor.Attributes{})
					}
				}
			}
			kit.Idle() // the answers have been written
			for i := 0; i < nLocal; i++ {
				// a packet keeps the RTX number it was given when it was stored (asked for twice, it goes out twice under that number); two
				// different packets - different original sequence numbers in the RTX payload - never share one while fewer than 2^16 were stored
				seen := map[uint16]uint16{}
				n := 0
				for _, c := range sinks[i].Calls() {
					if c.Header.SSRC != localInfos[i].SSRCRetransmission || len(c.Payload) < 2 {
						continue
					}
					n++
					osn := uint16(c.Payload[0])<<8 | uint16(c.Payload[1])
					if prev, dup := seen[c.Header.SequenceNumber]; dup && prev != osn && int(wrote[0].Load()+wrote[1].Load()) < 60000 {
						return fmt.Sprintf("RTX sequence allocation lost updates: the retransmissions of packets %d and %d on ssrc %#x both carry RTX sequence number %d (%d retransmissions seen)",
							prev, osn, localInfos[i].SSRCRetransmission, c.Header.SequenceNumber, n)
					}
					seen[c.Header.SequenceNumber] = osn
				}
			}
		}
		if rig.Async && p.Member == "pacing" {
			for i := 0; i < nLocal; i++ {
				want := accepted[i].Load()
				if !kit.Eventually(20*time.Second, func() bool { return int64(sinks[i].Len()) >= want }) {
					return fmt.Sprintf("pacer lost packets: %d accepted on ssrc %#x, %d delivered", want, localInfos[i].SSRC, sinks[i].Len())
				}
			}
		}
	}
	if o := kit.Guard(20*time.Second, closeChain); !o.OK() {
		return fmt.Sprintf("Close did not return: %s\n%s", o, allStacks())
	}

	return ""
}

func allStacks() string {
	buf := make([]byte, 1<<20)
	n := runtime.Stack(buf, true)
	if n > 12000 {
		n = 12000
	}

	return string(buf[:n])
}

// the members with goroutines of their own between the application and the transport get more of the cases
var members = append([]string{"chain", "chain", "chain-reversed", "chain-reversed", "cc-leaky-bucket", "cc-leaky-bucket", "pacing", "nack-responder-small", "nack-responder-small", "nack-responder-rtx", "nack-responder-rtx", "nack-responder-rtx"}, kit.AllNames...)

func TestConcurrentPrograms(t *testing.T) {
	if rp := kit.ReplayFile(); rp != "" {
		var p Program
		b, _ := os.ReadFile(rp)
		if err := json.Unmarshal(b, &p); err != nil {
			t.Fatalf("replay file: %v", err)
		}
		for i := 0; i < 20; i++ { // a schedule-dependent failure reproduces only with some probability
			if v := runProgram(&p); v != "" {
				t.Fatalf("%s", v)
			}
		}

		return
	}
	rec := kit.NewRecorder("C10", "concurrent-programs",
		"seeded concurrent programs per interceptor and for an all-interceptor chain: 1-4 writer goroutines (distinct streams or one shared stream), 0-3 RTP readers, 0-3 RTCP read loops, "+
			"an observer calling the public getters, a lifecycle goroutine binding/unbinding other streams and optionally closing mid-traffic; run under the Go race detector with seeded "+
			"yield/sleep perturbation; non-trivial = at least two goroutines touch the same state class (same stream, RTCP + RTP, or lifecycle + traffic); distinct by program")
	rapid.Check(t, func(t *rapid.T) {
		p := &Program{
			Member:      rapid.SampledFrom(members).Draw(t, "member"),
			Writers:     rapid.IntRange(1, 4).Draw(t, "writers"),
			SameStream:  rapid.Bool().Draw(t, "sameStream"),
			Readers:     rapid.IntRange(0, 3).Draw(t, "readers"),
			RTCPReaders: rapid.IntRange(0, 3).Draw(t, "rtcpReaders"),
			Observer:    rapid.Bool().Draw(t, "observer"),
			Lifecycle:   rapid.Bool().Draw(t, "lifecycle"),
			Ops:         rapid.IntRange(20, 200).Draw(t, "ops"),
			Seed:        rapid.Uint64().Draw(t, "seed"),
		}
		p.CloseEarly = p.Lifecycle && rapid.IntRange(0, 3).Draw(t, "closeEarly") == 0
		p.UnbindLive = p.Lifecycle && rapid.Bool().Draw(t, "unbindLive")
		p.ForeignSSRC = rapid.Bool().Draw(t, "foreignSSRC")
		j, _ := json.Marshal(p)
		kit.Journal("TestConcurrentPrograms", j)
		if v := runProgram(p); v != "" {
			t.Fatalf("%s", v)
		}
		shared := (p.Writers >= 2 && p.SameStream) || (p.RTCPReaders >= 1 && p.Writers >= 1) || p.RTCPReaders >= 2 || p.Lifecycle
		rec.Case(kit.NewH().B(j).Sum(), shared, []string{"member=" + p.Member, fmt.Sprintf("rtcpReaders=%d", p.RTCPReaders), fmt.Sprintf("closeEarly=%v", p.CloseEarly)}, func() any { return p })
	})
}
