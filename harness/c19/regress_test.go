package c19

import (
	"testing"
	"time"

	"github.com/pion/interceptor"
	"github.com/pion/interceptor/pkg/stats"
	"github.com/pion/interceptor/verifharness/kit"
	"github.com/pion/rtcp"
)

func regressSetup(t *testing.T) (stats.Getter, interceptor.RTCPReader, *kit.ByteSource, func()) {
	t.Helper()
	f, _ := stats.NewInterceptor(stats.SetNowFunc(func() time.Time { return epoch }))
	var g stats.Getter
	f.OnNewPeerConnection(func(_ string, gg stats.Getter) { g = gg })
	ic, _ := f.NewInterceptor("pc")
	base := kit.StableGoroutines()
	ic.BindLocalStream(&interceptor.StreamInfo{SSRC: 100, ClockRate: 90000}, &kit.RTPSink{})
	kit.WaitGoroutines(base, 5*time.Second)
	src := &kit.ByteSource{}

	return g, ic.BindRTCPReader(src), src, func() { _ = ic.Close() }
}

func TestRegressPacketsAfterXRAreCounted(t *testing.T) {
	g, r, src, done := regressSetup(t)
	defer done()
	raw, _ := rtcp.Marshal([]rtcp.Packet{
		&rtcp.ExtendedReport{SenderSSRC: 7, Reports: []rtcp.ReportBlock{&rtcp.DLRRReportBlock{Reports: []rtcp.DLRRReport{{SSRC: 100, LastRR: 1, DLRR: 1}}}}},
		&rtcp.TransportLayerNack{SenderSSRC: 7, MediaSSRC: 100, Nacks: []rtcp.NackPair{{PacketID: 1}}},
	})
	src.Push(raw)
	if _, _, err := r.Read(make([]byte, 1500), nil); err != nil {
		t.Fatal(err)
	}
	if got := g.Get(100).OutboundRTPStreamStats.NACKCount; got != 1 {
		kit.WriteReplay("TestRegressPacketsAfterXRAreCounted", []byte(`{"compound":["XR(DLRR ssrc 100)","NACK(media 100)"]}`))
		t.Fatalf("compound [XR, NACK]: NACK count %d, want 1", got)
	}
}

func TestRegressFIRCountedByFCIEntry(t *testing.T) {
	g, r, src, done := regressSetup(t)
	defer done()
	raw, _ := rtcp.Marshal([]rtcp.Packet{&rtcp.FullIntraRequest{SenderSSRC: 7, MediaSSRC: 0, FIR: []rtcp.FIREntry{{SSRC: 100, SequenceNumber: 1}}}})
	src.Push(raw)
	if _, _, err := r.Read(make([]byte, 1500), nil); err != nil {
		t.Fatal(err)
	}
	if got := g.Get(100).OutboundRTPStreamStats.FIRCount; got != 1 {
		kit.WriteReplay("TestRegressFIRCountedByFCIEntry", []byte(`{"fir":{"media_ssrc":0,"fci_ssrc":100}}`))
		t.Fatalf("FIR with media source 0 and FCI entry for the stream: FIR count %d, want 1", got)
	}
}
