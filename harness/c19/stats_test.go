package c19

import (
	"fmt"
	"math"
	"sort"
	"sync"
	"testing"
	"time"

	"github.com/pion/interceptor"
	"github.com/pion/interceptor/pkg/stats"
	"github.com/pion/interceptor/verifharness/kit"
	"github.com/pion/rtcp"
	"github.com/pion/rtp"
	"pgregory.net/rapid"
)

var epoch = time.Date(2024, 3, 1, 12, 0, 0, 0, time.UTC)

func ntpOf(t time.Time) uint64 {
	sec := uint64(t.Unix()) + 2208988800 //nolint:gosec
	frac := uint64(t.Nanosecond()) << 32 / 1_000_000_000

	return sec<<32 | frac
}

func ntpToTime(v uint64) time.Time {
	sec := int64(v >> 32)                             //nolint:gosec
	frac := int64(v&0xffffffff) * 1_000_000_000 >> 32 //nolint:gosec

	return time.Unix(sec-2208988800, frac).UTC()
}

// model is a recount of what passed through for one SSRC since its recorder became active.
// refUnwrapper extends 16-bit sequence numbers by the nearest-value rule (steps here stay far below 2^15) and, like the documented
// behaviour of the library's, never goes below zero.
type refUnwrapper struct {
	init bool
	last int64
}

func (u *refUnwrapper) unwrap(seq uint16) int64 {
	if !u.init {
		u.init, u.last = true, int64(seq)

		return u.last
	}
	v := u.last + int64(int16(seq-uint16(u.last))) //nolint:gosec
	if v < 0 {
		v += 65536
	}
	u.last = v

	return v
}

type model struct {
	ssrc uint32
	rate float64
	// inbound
	unwrap         refUnwrapper // written here, so that a fault in the library's unwrapper does not hide in the model
	inInit         bool
	first, highest int64
	pktsIn         uint64
	hdrBytesIn     uint64
	bytesIn        uint64
	firOut, pliOut uint32 // feedback we sent about this (remote) stream
	nackOut        uint32
	// outbound
	pktsOut, bytesOut uint64
	hdrBytesOut       uint64
	firIn, pliIn      uint32 // feedback received about this (local) stream
	nackIn            uint32
	firstSentInit     bool
	firstSent         int64
	// remote inbound (from reception reports naming this ssrc)
	haveRR               bool
	rrLost               int64
	rrFraction, rrJitter float64
	rateAmbiguous        bool
	rrReceived           uint64
	haveRRReceived       bool
	rtt, rttTotal        time.Duration
	rttN                 uint64
	lastSRs              []uint64 // NTP times of the last five sender reports written for this ssrc
	// remote outbound (DLRR)
	lastRRTRs             []uint64
	dlrrRTT, dlrrRTTTotal time.Duration
	dlrrN                 uint64
}

type clock struct {
	mu sync.Mutex
	t  time.Time
}

func (c *clock) now() time.Time {
	c.mu.Lock()
	defer c.mu.Unlock()

	return c.t
}

func near(a, b time.Duration) bool {
	d := a - b
	return d <= 2*time.Microsecond && d >= -2*time.Microsecond
}

func TestStatsEqualRecount(t *testing.T) {
	rec := kit.NewRecorder("C19", "stats-recount",
		"interleavings of incoming/outgoing RTP (1-3 SSRCs per direction through one interceptor, wrap, duplicates, reordering, foreign SSRCs) and incoming/outgoing RTCP "+
			"compounds mixing SR, RR, XR(DLRR/RRTR), NACK, PLI, FIR for matching and non-matching SSRCs in every order, model clock via SetNowFunc; Get(ssrc) compared after every step; "+
			"non-trivial = a compound with >= 3 packet types or >= 2 SSRCs active; distinct by history")
	rapid.Check(t, func(t *rapid.T) {
		kit.Idle()
		clk := &clock{t: epoch}
		f, err := stats.NewInterceptor(stats.SetNowFunc(clk.now))
		if err != nil {
			t.Fatalf("factory: %v", err)
		}
		var getter stats.Getter
		f.OnNewPeerConnection(func(_ string, g stats.Getter) { getter = g })
		ic, err := f.NewInterceptor("pc")
		if err != nil {
			t.Fatalf("NewInterceptor: %v", err)
		}
		defer kit.BoundedClose(ic.Close)
		base := kit.StableGoroutines()
		rtcpOut := ic.BindRTCPWriter(&kit.RTCPSink{})
		rtcpSrc := &kit.ByteSource{}
		rtcpIn := ic.BindRTCPReader(rtcpSrc)
		nLocal := rapid.IntRange(1, 3).Draw(t, "local")
		nRemote := rapid.IntRange(1, 3).Draw(t, "remote")
		type local struct {
			m   *model
			w   interceptor.RTPWriter
			seq uint16
		}
		type remote struct {
			m   *model
			src *kit.ByteSource
			r   interceptor.RTPReader
			seq uint16
		}
		var locals []*local
		var remotes []*remote
		classes := map[string]bool{}
		models := map[uint32]*model{}
		for i := 0; i < nLocal; i++ {
			ssrc := uint32(100 + i) //nolint:gosec
			rate := rapid.SampledFrom([]uint32{8000, 48000, 90000}).Draw(t, "rate")
			l := &local{m: &model{ssrc: ssrc, rate: float64(rate)}, seq: kit.U16Boundary().Draw(t, "lseq")}
			l.w = ic.BindLocalStream(&interceptor.StreamInfo{SSRC: ssrc, ClockRate: rate}, &kit.RTPSink{})
			locals = append(locals, l)
			models[ssrc] = l.m
		}
		for i := 0; i < nRemote; i++ {
			ssrc := uint32(200 + i) //nolint:gosec
			rate := rapid.SampledFrom([]uint32{8000, 48000, 90000}).Draw(t, "rate")
			r := &remote{m: &model{ssrc: ssrc, rate: float64(rate)}, src: &kit.ByteSource{}, seq: kit.U16Boundary().Draw(t, "rseq")}
			if i < len(locals) && rapid.IntRange(0, 3).Draw(t, "bothDirections") == 0 {
				// one SSRC bound in both directions (a loopback, or the two halves of a mock stream), possibly with another clock rate in
				// its second StreamInfo: one set of statistics for that SSRC, counting what passes in either direction since the first bind
				ssrc, r.m = locals[i].m.ssrc, locals[i].m
				if float64(rate) != r.m.rate {
					r.m.rateAmbiguous = true // which of the two rates scales the remote jitter is not stated
				}
				classes["ssrc-bound-in-both-directions"] = true
			}
			r.r = ic.BindRemoteStream(&interceptor.StreamInfo{SSRC: ssrc, ClockRate: rate}, r.src)
			remotes = append(remotes, r)
			models[ssrc] = r.m
		}
		// recorders are started asynchronously: wait until every start goroutine has finished
		if left := kit.WaitGoroutines(base, 10*time.Second); left > base {
			t.Fatalf("recorder start goroutines still running after 10 s")
		}
		now := epoch
		advance := func(t *rapid.T) {
			now = now.Add(time.Duration(rapid.OneOf(rapid.Int64Range(1, 50), rapid.Int64Range(1, 5000)).Draw(t, "ms")) * time.Millisecond)
			clk.mu.Lock()
			clk.t = now
			clk.mu.Unlock()
		}
		h := kit.NewH()
		// report timestamps written by us are strictly increasing, so their middle 32 bits are distinct (LSR / LRR matching)
		stamp := int64(0)
		nextStamp := func() uint64 {
			stamp++

			return ntpOf(epoch.Add(time.Duration(stamp) * time.Millisecond))
		}
		nontrivial := nLocal+nRemote >= 3
		// ---- steps
		outRTP := func(t *rapid.T) {
			advance(t)
			l := locals[rapid.IntRange(0, nLocal-1).Draw(t, "l")]
			hdr := kit.GenHeader(t, "h", kit.HeaderShape{})
			payload := kit.Payload(t, "p", 1200)
			hdr.SSRC = l.m.ssrc
			if rapid.IntRange(0, 9).Draw(t, "foreign") == 0 {
				hdr.SSRC = 999
			}
			switch rapid.IntRange(0, 9).Draw(t, "seqstep") {
			case 0:
			case 1:
				l.seq += uint16(rapid.IntRange(2, 5).Draw(t, "gap")) //nolint:gosec
			default:
				l.seq++
			}
			hdr.SequenceNumber = l.seq
			if _, err := l.w.Write(&hdr, payload, nil); err != nil {
				t.Fatalf("Write: %v", err)
			}
			h.U(1, uint64(hdr.SSRC), uint64(hdr.SequenceNumber)).I(len(payload))
			if hdr.SSRC != l.m.ssrc {
				classes["foreign-ssrc-out"] = true

				return
			}
			l.m.pktsOut++
			l.m.hdrBytesOut += uint64(hdr.MarshalSize())             //nolint:gosec
			l.m.bytesOut += uint64(hdr.MarshalSize() + len(payload)) //nolint:gosec
			if !l.m.firstSentInit {
				l.m.firstSentInit, l.m.firstSent = true, int64(hdr.SequenceNumber)
			}
		}
		inRTP := func(t *rapid.T) {
			advance(t)
			r := remotes[rapid.IntRange(0, nRemote-1).Draw(t, "r")]
			hdr := kit.GenHeader(t, "h", kit.HeaderShape{})
			payload := kit.Payload(t, "p", 1200)
			if hdr.Padding && len(payload) == 0 {
				payload = []byte{1}
			}
			hdr.SSRC = r.m.ssrc
			if rapid.IntRange(0, 9).Draw(t, "foreign") == 0 {
				hdr.SSRC = 998
			}
			seq := r.seq
			switch rapid.IntRange(0, 11).Draw(t, "seqstep") {
			case 0: // duplicate
			case 1:
				r.seq += uint16(rapid.IntRange(2, 9).Draw(t, "gap")) //nolint:gosec
				seq = r.seq
			case 2: // reordered
				seq = r.seq - uint16(rapid.IntRange(1, 20).Draw(t, "back")) //nolint:gosec
			default:
				r.seq++
				seq = r.seq
			}
			hdr.SequenceNumber = seq
			raw, err := (&rtp.Packet{Header: hdr, Payload: payload}).Marshal()
			if err != nil {
				t.Fatalf("harness: %v", err)
			}
			r.src.Push(raw)
			buf := kit.DirtyBuffer(len(raw) + 300)
			n, _, err := r.r.Read(buf, nil)
			if err != nil || n != len(raw) {
				t.Fatalf("Read: n=%d err=%v", n, err)
			}
			h.U(2, uint64(hdr.SSRC), uint64(seq)).I(len(raw))
			if hdr.SSRC != r.m.ssrc {
				classes["foreign-ssrc-in"] = true

				return
			}
			m := r.m
			u := m.unwrap.unwrap(seq)
			if !m.inInit {
				m.inInit, m.first = true, u
			}
			if u > m.highest {
				m.highest = u
			}
			m.pktsIn++
			m.hdrBytesIn += uint64(hdr.MarshalSize()) //nolint:gosec
			m.bytesIn += uint64(len(raw))
		}
		pickSSRC := func(t *rapid.T, label string, wantLocal bool) uint32 {
			k := rapid.IntRange(0, 3).Draw(t, label)
			if wantLocal && k < nLocal {
				return locals[k].m.ssrc
			}
			if !wantLocal && k < nRemote {
				return remotes[k].m.ssrc
			}

			return uint32(900 + k) //nolint:gosec
		}
		genFeedback := func(t *rapid.T, target uint32, kind int) rtcp.Packet {
			switch kind {
			case 0:
				return &rtcp.TransportLayerNack{SenderSSRC: 5, MediaSSRC: target, Nacks: []rtcp.NackPair{{PacketID: 1}}}
			case 1:
				return &rtcp.PictureLossIndication{SenderSSRC: 5, MediaSSRC: target}
			default:
				media := target
				switch rapid.IntRange(0, 3).Draw(t, "firMedia") {
				case 0, 1:
					media = 0 // RFC 5104: the media source field of a FIR is zero, the target is in the FCI entry
				case 2:
					// ... and receivers ignore it: a sender that fills it with another stream's SSRC still asks only the streams of the entries
					media = uint32(rapid.SampledFrom([]int{100, 101, 200, 201, 900}).Draw(t, "firMediaOther")) //nolint:gosec
				}

				// one FIR can ask several streams for a key frame: 1..3 entries, the target anywhere among them
				entries := []rtcp.FIREntry{{SSRC: target, SequenceNumber: 1}}
				for i, n := 0, rapid.SampledFrom([]int{0, 0, 1, 2}).Draw(t, "firMore"); i < n; i++ {
					e := rtcp.FIREntry{SSRC: uint32(rapid.SampledFrom([]int{100, 101, 200, 201, 900}).Draw(t, "firOther")), SequenceNumber: uint8(i + 2)} //nolint:gosec
					if rapid.Bool().Draw(t, "firBefore") {
						entries = append([]rtcp.FIREntry{e}, entries...)
					} else {
						entries = append(entries, e)
					}
				}

				return &rtcp.FullIntraRequest{SenderSSRC: 5, MediaSSRC: media, FIR: entries}
			}
		}
		outRTCP := func(t *rapid.T) {
			advance(t)
			var pkts []rtcp.Packet
			types := map[string]bool{}
			for i, n := 0, rapid.IntRange(1, 5).Draw(t, "n"); i < n; i++ {
				switch rapid.IntRange(0, 5).Draw(t, "kind") {
				case 0: // SR of one of our local streams
					ssrc := pickSSRC(t, "srssrc", true)
					stamp := nextStamp()
					if m := models[ssrc]; m != nil && len(m.lastSRs) > 0 && rapid.IntRange(0, 5).Draw(t, "sameStampAgain") == 0 {
						stamp = m.lastSRs[len(m.lastSRs)-1] // a sender report written twice with the same NTP time: one reception report still is one measurement
					}
					pkts = append(pkts, &rtcp.SenderReport{SSRC: ssrc, NTPTime: stamp, RTPTime: 1, PacketCount: 2, OctetCount: 3})
					types["SR"] = true
				case 1:
					// an XR with a receiver reference time block, alone or next to blocks that name one particular stream: every recorder still sees the RRTR
					blocks := []rtcp.ReportBlock{&rtcp.ReceiverReferenceTimeReportBlock{NTPTimestamp: nextStamp()}}
					switch rapid.IntRange(0, 3).Draw(t, "xrMix") {
					case 0:
						blocks = append(blocks, &rtcp.DLRRReportBlock{Reports: []rtcp.DLRRReport{{SSRC: pickSSRC(t, "xrDlrrFor", false), LastRR: 1, DLRR: 1}}})
					case 1:
						blocks = append([]rtcp.ReportBlock{&rtcp.DLRRReportBlock{Reports: []rtcp.DLRRReport{{SSRC: pickSSRC(t, "xrDlrrFor", true), LastRR: 1, DLRR: 1}}}}, blocks...)
					}
					pkts = append(pkts, &rtcp.ExtendedReport{SenderSSRC: rapid.SampledFrom([]uint32{5, 5, 0}).Draw(t, "xrSender") + uint32(rapid.IntRange(0, 1).Draw(t, "xrSenderIsStream"))*pickSSRC(t, "xrSenderSSRC", false), Reports: blocks})
					types["XR"] = true
				case 2:
					pkts = append(pkts, &rtcp.ReceiverReport{SSRC: 5})
					types["RR"] = true
				default:
					k := rapid.IntRange(0, 2).Draw(t, "fbkind")
					pkts = append(pkts, genFeedback(t, pickSSRC(t, "fbssrc", false), k))
					types[[]string{"NACK", "PLI", "FIR"}[k]] = true
				}
			}
			if len(types) >= 3 {
				nontrivial = true
			}
			if _, err := rtcpOut.Write(pkts, nil); err != nil {
				t.Fatalf("RTCP Write: %v", err)
			}
			h.U(3).I(len(pkts))
			for _, p := range pkts {
				dest := p.DestinationSSRC()
				for _, m := range models {
					in := false
					for _, d := range dest {
						if d == m.ssrc {
							in = true
						}
					}
					switch v := p.(type) {
					case *rtcp.TransportLayerNack:
						if in {
							m.nackOut++
						}
					case *rtcp.PictureLossIndication:
						if in {
							m.pliOut++
						}
					case *rtcp.FullIntraRequest:
						if in {
							m.firOut++
						}
					case *rtcp.SenderReport:
						if v.SSRC == m.ssrc {
							m.lastSRs = append(m.lastSRs, v.NTPTime)
							if len(m.lastSRs) > 5 {
								m.lastSRs = m.lastSRs[len(m.lastSRs)-5:]
							}
						}
					case *rtcp.ExtendedReport:
						for _, b := range v.Reports {
							if rr, ok := b.(*rtcp.ReceiverReferenceTimeReportBlock); ok {
								m.lastRRTRs = append(m.lastRRTRs, rr.NTPTimestamp)
								if len(m.lastRRTRs) > 5 {
									m.lastRRTRs = m.lastRRTRs[len(m.lastRRTRs)-5:]
								}
							}
						}
					}
				}
			}
		}
		inRTCP := func(t *rapid.T) {
			advance(t)
			var pkts []rtcp.Packet
			types := map[string]bool{}
			genReception := func(t *rapid.T) rtcp.ReceptionReport {
				ssrc := pickSSRC(t, "rrssrc", true)
				rr := rtcp.ReceptionReport{SSRC: ssrc, FractionLost: uint8(rapid.IntRange(0, 255).Draw(t, "fl")), //nolint:gosec
					TotalLost: rapid.Uint32Range(0, 5000).Draw(t, "lost"), Jitter: rapid.Uint32Range(0, 100000).Draw(t, "jit"),
					LastSequenceNumber: rapid.Uint32Range(0, 3<<16).Draw(t, "ext")}
				if m := models[ssrc]; m != nil && len(m.lastSRs) > 0 && rapid.IntRange(0, 3).Draw(t, "lsrKnown") != 0 {
					sr := m.lastSRs[rapid.IntRange(0, len(m.lastSRs)-1).Draw(t, "which")]
					rr.LastSenderReport = uint32(sr >> 16) //nolint:gosec
					rr.Delay = rapid.OneOf(rapid.Uint32Range(0, 65536), rapid.Just(uint32(0))).Draw(t, "dlsr")
				} else if rapid.Bool().Draw(t, "lsrRandom") {
					rr.LastSenderReport = rapid.Uint32().Draw(t, "lsr")
					rr.Delay = rapid.Uint32Range(0, 65536).Draw(t, "dlsr")
				}

				return rr
			}
			for i, n := 0, rapid.IntRange(1, 5).Draw(t, "n"); i < n; i++ {
				switch rapid.IntRange(0, 6).Draw(t, "kind") {
				case 0:
					pkts = append(pkts, &rtcp.ReceiverReport{SSRC: 7, Reports: []rtcp.ReceptionReport{genReception(t)}})
					types["RR"] = true
				case 1:
					sr := &rtcp.SenderReport{SSRC: pickSSRC(t, "srssrc", false), NTPTime: ntpOf(now), PacketCount: 10, OctetCount: 1000}
					if rapid.Bool().Draw(t, "withReport") {
						sr.Reports = []rtcp.ReceptionReport{genReception(t)}
					}
					pkts = append(pkts, sr)
					types["SR"] = true
				case 2: // XR with a DLRR block: 1-3 sub-blocks naming remote streams (or foreign SSRCs)
					var subs []rtcp.DLRRReport
					for k, nsub := 0, rapid.IntRange(1, 3).Draw(t, "dlrrSubs"); k < nsub; k++ {
						ssrc := pickSSRC(t, "dlrrssrc", false)
						d := rtcp.DLRRReport{SSRC: ssrc, DLRR: rapid.OneOf(rapid.Uint32Range(0, 65536), rapid.Just(uint32(0))).Draw(t, "dlrr")}
						if m := models[ssrc]; m != nil && len(m.lastRRTRs) > 0 && rapid.IntRange(0, 3).Draw(t, "lrrKnown") != 0 {
							d.LastRR = uint32(m.lastRRTRs[rapid.IntRange(0, len(m.lastRRTRs)-1).Draw(t, "which")] >> 16) //nolint:gosec
						} else if len(remotes) > 0 && len(remotes[0].m.lastRRTRs) > 0 && rapid.Bool().Draw(t, "lrrOfOther") {
							d.LastRR = uint32(remotes[0].m.lastRRTRs[len(remotes[0].m.lastRRTRs)-1] >> 16) //nolint:gosec
						} else {
							d.LastRR = rapid.Uint32().Draw(t, "lrr")
						}
						subs = append(subs, d)
					}
					pkts = append(pkts, &rtcp.ExtendedReport{SenderSSRC: 7, Reports: []rtcp.ReportBlock{&rtcp.DLRRReportBlock{Reports: subs}}})
					types["XR"] = true
				default:
					k := rapid.IntRange(0, 2).Draw(t, "fbkind")
					pkts = append(pkts, genFeedback(t, pickSSRC(t, "fbssrc", true), k))
					types[[]string{"NACK", "PLI", "FIR"}[k]] = true
				}
			}
			if len(types) >= 3 {
				nontrivial = true
			}
			raw, err := rtcp.Marshal(pkts)
			if err != nil {
				t.Fatalf("harness: %v", err)
			}
			rtcpSrc.Push(raw)
			buf := kit.DirtyBuffer(len(raw) + 100)
			n, _, err := rtcpIn.Read(buf, nil)
			if err != nil || n != len(raw) {
				t.Fatalf("RTCP Read: n=%d err=%v", n, err)
			}
			h.U(4).I(len(pkts))
			var order []string
			for _, p := range pkts {
				order = append(order, fmt.Sprintf("%T", p))
				switch v := p.(type) {
				case *rtcp.TransportLayerNack:
					if m := models[v.MediaSSRC]; m != nil {
						m.nackIn++
					}
				case *rtcp.PictureLossIndication:
					if m := models[v.MediaSSRC]; m != nil {
						m.pliIn++
					}
				case *rtcp.FullIntraRequest:
					counted := map[uint32]bool{} // one request per FIR packet and stream, wherever the stream stands among the entries
					for _, e := range v.FIR {
						if m := models[e.SSRC]; m != nil && !counted[e.SSRC] {
							counted[e.SSRC] = true
							m.firIn++
							if v.MediaSSRC != e.SSRC {
								classes["fir-media-zero"] = true
							}
						}
					}
					if len(v.FIR) > 1 {
						classes["fir-several-entries"] = true
					}
				case *rtcp.ReceiverReport:
					for _, rr := range v.Reports {
						applyReception(models[rr.SSRC], rr, now)
					}
				case *rtcp.SenderReport:
					for _, rr := range v.Reports {
						applyReception(models[rr.SSRC], rr, now)
					}
				case *rtcp.ExtendedReport:
					for _, b := range v.Reports {
						if d, ok := b.(*rtcp.DLRRReportBlock); ok {
							for _, r := range d.Reports {
								m := models[r.SSRC]
								if m == nil || r.LastRR == 0 || r.DLRR == 0 {
									continue
								}
								for i := len(m.lastRRTRs) - 1; i >= 0; i-- {
									if uint32(m.lastRRTRs[i]>>16) == r.LastRR { //nolint:gosec
										m.dlrrRTT = now.Add(-time.Duration(float64(r.DLRR) / 65536 * float64(time.Second))).Sub(ntpToTime(m.lastRRTRs[i]))
										m.dlrrRTTTotal += m.dlrrRTT
										m.dlrrN++

										break
									}
								}
							}
						}
					}
				}
			}
			_ = order
		}
		verify := func(where string) {
			for ssrc, m := range models {
				s := getter.Get(ssrc)
				if s == nil {
					t.Fatalf("%s: Get(%d) returned nil for a bound stream", where, ssrc)
				}
				bad := func(field string, got, want any) {
					t.Fatalf("%s: ssrc %d %s = %v, a recount of the traffic gives %v", where, ssrc, field, got, want)
				}
				if s.InboundRTPStreamStats.PacketsReceived != m.pktsIn {
					bad("inbound PacketsReceived", s.InboundRTPStreamStats.PacketsReceived, m.pktsIn)
				}
				if s.HeaderBytesReceived != m.hdrBytesIn {
					bad("HeaderBytesReceived", s.HeaderBytesReceived, m.hdrBytesIn)
				}
				if s.BytesReceived != m.bytesIn {
					bad("BytesReceived", s.BytesReceived, m.bytesIn)
				}
				if m.inInit {
					want := (m.highest - m.first + 1) - int64(m.pktsIn) //nolint:gosec
					if s.InboundRTPStreamStats.PacketsLost != want {
						bad("inbound PacketsLost", s.InboundRTPStreamStats.PacketsLost, want)
					}
				}
				if s.InboundRTPStreamStats.NACKCount != m.nackOut || s.InboundRTPStreamStats.PLICount != m.pliOut || s.InboundRTPStreamStats.FIRCount != m.firOut {
					bad("inbound NACK/PLI/FIR (sent by us about it)", []uint32{s.InboundRTPStreamStats.NACKCount, s.InboundRTPStreamStats.PLICount, s.InboundRTPStreamStats.FIRCount}, []uint32{m.nackOut, m.pliOut, m.firOut})
				}
				if s.OutboundRTPStreamStats.PacketsSent != m.pktsOut || s.OutboundRTPStreamStats.BytesSent != m.bytesOut || s.HeaderBytesSent != m.hdrBytesOut {
					bad("outbound PacketsSent/BytesSent/HeaderBytesSent", []uint64{s.OutboundRTPStreamStats.PacketsSent, s.OutboundRTPStreamStats.BytesSent, s.HeaderBytesSent}, []uint64{m.pktsOut, m.bytesOut, m.hdrBytesOut})
				}
				if s.OutboundRTPStreamStats.NACKCount != m.nackIn || s.OutboundRTPStreamStats.PLICount != m.pliIn || s.OutboundRTPStreamStats.FIRCount != m.firIn {
					bad("outbound NACK/PLI/FIR (received about it)", []uint32{s.OutboundRTPStreamStats.NACKCount, s.OutboundRTPStreamStats.PLICount, s.OutboundRTPStreamStats.FIRCount}, []uint32{m.nackIn, m.pliIn, m.firIn})
				}
				if m.haveRR {
					ri := s.RemoteInboundRTPStreamStats
					if ri.PacketsLost != m.rrLost || math.Abs(ri.FractionLost-m.rrFraction) > 1e-12 || (!m.rateAmbiguous && math.Abs(ri.Jitter-m.rrJitter) > 1e-9) {
						bad("remote inbound PacketsLost/FractionLost/Jitter", []any{ri.PacketsLost, ri.FractionLost, ri.Jitter}, []any{m.rrLost, m.rrFraction, m.rrJitter})
					}
					if m.haveRRReceived && ri.PacketsReceived != m.rrReceived {
						bad("remote inbound PacketsReceived", ri.PacketsReceived, m.rrReceived)
					}
				}
				ri := s.RemoteInboundRTPStreamStats
				tol := func(n uint64) time.Duration { return time.Duration(n+1) * 2 * time.Microsecond }
				if d := ri.TotalRoundTripTime - m.rttTotal; ri.RoundTripTimeMeasurements != m.rttN || !near(ri.RoundTripTime, m.rtt) || d > tol(m.rttN) || d < -tol(m.rttN) {
					bad("remote inbound RoundTripTime/Total/Measurements", []any{ri.RoundTripTime, ri.TotalRoundTripTime, ri.RoundTripTimeMeasurements}, []any{m.rtt, m.rttTotal, m.rttN})
				}
				ro := s.RemoteOutboundRTPStreamStats
				if d := ro.TotalRoundTripTime - m.dlrrRTTTotal; ro.RoundTripTimeMeasurements != m.dlrrN || !near(ro.RoundTripTime, m.dlrrRTT) || d > tol(m.dlrrN) || d < -tol(m.dlrrN) {
					bad("remote outbound (DLRR) RoundTripTime/Total/Measurements", []any{ro.RoundTripTime, ro.TotalRoundTripTime, ro.RoundTripTimeMeasurements}, []any{m.dlrrRTT, m.dlrrRTTTotal, m.dlrrN})
				}
			}
			if getter.Get(4242) != nil {
				t.Fatalf("%s: Get for an SSRC that was never bound returned statistics", where)
			}
		}
		step := 0
		wrap := func(name string, f func(*rapid.T)) func(*rapid.T) {
			return func(t *rapid.T) {
				step++
				f(t)
				verify(fmt.Sprintf("after step %d (%s)", step, name))
			}
		}
		t.Repeat(map[string]func(*rapid.T){
			"outRTP": wrap("outgoing RTP", outRTP), "outRTP2": wrap("outgoing RTP", outRTP),
			"inRTP": wrap("incoming RTP", inRTP), "inRTP2": wrap("incoming RTP", inRTP),
			"outRTCP": wrap("outgoing RTCP", outRTCP), "inRTCP": wrap("incoming RTCP", inRTCP), "inRTCP2": wrap("incoming RTCP", inRTCP),
		})
		var cl []string
		for c := range classes {
			cl = append(cl, c)
		}
		sort.Strings(cl)
		rec.Case(h.Sum(), nontrivial, cl, func() any { return map[string]any{"local_streams": nLocal, "remote_streams": nRemote, "steps": step} })
	})
}

// applyReception applies one reception report about m's stream, received at now.
func applyReception(m *model, rr rtcp.ReceptionReport, now time.Time) {
	if m == nil {
		return
	}
	m.haveRR = true
	m.rrLost = int64(rr.TotalLost)
	m.rrFraction = float64(rr.FractionLost) / 256
	m.rrJitter = float64(rr.Jitter) / m.rate
	if m.firstSentInit {
		expected := int64(rr.LastSequenceNumber) - m.firstSent + 1
		m.rrReceived = uint64(max(expected-int64(rr.TotalLost), 0)) //nolint:gosec
		m.haveRRReceived = true
	}
	if rr.Delay != 0 && rr.LastSenderReport != 0 {
		for i := len(m.lastSRs) - 1; i >= 0; i-- {
			if uint32(m.lastSRs[i]>>16) == rr.LastSenderReport { //nolint:gosec
				m.rtt = now.Add(-time.Duration(float64(rr.Delay) / 65536 * float64(time.Second))).Sub(ntpToTime(m.lastSRs[i]))
				m.rttTotal += m.rtt
				m.rttN++

				break
			}
		}
	}
}
