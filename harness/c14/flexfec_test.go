package c14

import (
	"bytes"
	"encoding/binary"
	"fmt"
	"testing"

	"github.com/pion/interceptor"
	"github.com/pion/interceptor/pkg/flexfec"
	"github.com/pion/interceptor/verifharness/kit"
	"github.com/pion/rtp"
	"pgregory.net/rapid"
)

const (
	fecSSRC = 0xFEC0
	fecPT   = 119
)

// repair is a FlexFEC-03 repair packet decoded from its wire bytes (written from
// draft-ietf-payload-flexible-fec-scheme-03, independent of pkg/flexfec).
type repair struct {
	hdr        rtp.Header
	first2     [2]byte // 0|0|P|X|CC|M|PT recovery
	lengthRec  uint16
	tsRec      uint32
	ssrc       uint32
	snBase     uint16
	protected  []int // mask bits -> indices relative to snBase
	payloadRec []byte
}

func decodeRepair(p *rtp.Packet) (*repair, error) {
	b := p.Payload
	if len(b) < 20 {
		return nil, fmt.Errorf("repair payload of %d bytes is shorter than the 20-byte FlexFEC-03 header", len(b))
	}
	r := &repair{hdr: p.Header}
	if b[0]&0xC0 != 0 {
		return nil, fmt.Errorf("R/F bits set in the first FEC header octet (%#x)", b[0])
	}
	r.first2 = [2]byte{b[0], b[1]}
	r.lengthRec = binary.BigEndian.Uint16(b[2:])
	r.tsRec = binary.BigEndian.Uint32(b[4:])
	if b[8] != 1 {
		return nil, fmt.Errorf("SSRCCount %d, want 1", b[8])
	}
	if b[9] != 0 || b[10] != 0 || b[11] != 0 {
		return nil, fmt.Errorf("reserved bits not zero")
	}
	r.ssrc = binary.BigEndian.Uint32(b[12:])
	r.snBase = binary.BigEndian.Uint16(b[16:])
	m1 := binary.BigEndian.Uint16(b[18:])
	for i := 0; i < 15; i++ {
		if m1&(1<<(14-i)) != 0 {
			r.protected = append(r.protected, i)
		}
	}
	off := 20
	if m1&0x8000 == 0 { // k bit clear: the 31-bit mask follows
		if len(b) < 24 {
			return nil, fmt.Errorf("k bit of mask[0-14] clear but no second mask word")
		}
		m2 := binary.BigEndian.Uint32(b[20:])
		for i := 0; i < 31; i++ {
			if m2&(1<<(30-i)) != 0 {
				r.protected = append(r.protected, 15+i)
			}
		}
		off = 24
		if m2&0x80000000 == 0 {
			if len(b) < 32 {
				return nil, fmt.Errorf("k bit of mask[15-45] clear but no third mask word")
			}
			m3 := binary.BigEndian.Uint64(b[24:])
			for i := 0; i < 63; i++ {
				if m3&(1<<(62-i)) != 0 {
					r.protected = append(r.protected, 46+i)
				}
			}
			off = 32
			if m3&(1<<63) == 0 {
				return nil, fmt.Errorf("k bit of the last mask word is clear")
			}
		}
	}
	r.payloadRec = b[off:]

	return r, nil
}

// wire returns the packet as a transport puts it on the wire (fresh buffer: padding filler octets are zero).
func wire(p *rtp.Packet) []byte {
	b, err := p.Marshal()
	if err != nil {
		panic("harness: media packet does not marshal: " + err.Error())
	}

	return b
}

// recover reconstructs packet `lost` from the repair packet and the other protected packets' wire bytes.
func (r *repair) recover(lost int, wires map[int][]byte) ([]byte, error) {
	f0, f1 := r.first2[0], r.first2[1]
	length := r.lengthRec
	ts := r.tsRec
	body := append([]byte(nil), r.payloadRec...)
	for _, i := range r.protected {
		if i == lost {
			continue
		}
		w, ok := wires[i]
		if !ok {
			return nil, fmt.Errorf("mask names packet index %d which is not in the batch", i)
		}
		f0 ^= w[0] & 0x3F
		f1 ^= w[1]
		length ^= uint16(len(w) - 12) //nolint:gosec
		ts ^= binary.BigEndian.Uint32(w[4:])
		if len(w)-12 > len(body) {
			return nil, fmt.Errorf("protected packet %d has %d bytes after the fixed header, repair payload only %d", i, len(w)-12, len(body))
		}
		for k, c := range w[12:] {
			body[k] ^= c
		}
	}
	if int(length) > len(body) {
		return nil, fmt.Errorf("recovered length %d exceeds the repair payload %d", length, len(body))
	}
	for _, c := range body[length:] {
		if c != 0 {
			return nil, fmt.Errorf("non-zero residue beyond the recovered length %d: some combined packet is not named in the mask (or a named one was not combined)", length)
		}
	}
	out := make([]byte, 12+int(length))
	out[0] = 0x80 | f0
	out[1] = f1
	binary.BigEndian.PutUint16(out[2:], r.snBase+uint16(lost)) //nolint:gosec
	binary.BigEndian.PutUint32(out[4:], ts)
	binary.BigEndian.PutUint32(out[8:], r.ssrc)
	copy(out[12:], body[:length])

	return out, nil
}

type batchSpec struct {
	K, N    int
	BaseSeq uint16
}

func genBatch(t *rapid.T, base uint16, k int, packetValues bool) []rtp.Packet {
	pkts := make([]rtp.Packet, k)
	ts := rapid.Uint32().Draw(t, "ts")
	for i := range pkts {
		h := kit.GenHeader(t, "h", kit.HeaderShape{})
		h.SSRC = 0xABCD
		h.SequenceNumber = base + uint16(i) //nolint:gosec
		h.Timestamp = ts + uint32(i/3)*3000 //nolint:gosec
		payload := kit.Payload(t, "p", 1500)
		pkts[i] = rtp.Packet{Header: h, Payload: payload}
		if packetValues && h.Padding && rapid.IntRange(0, 2).Draw(t, "paddingInPacketField") == 0 {
			// the older way to say the same, open to callers that hand rtp.Packet values to the encoder: the count in rtp.Packet.PaddingSize
			// (deprecated, still honoured by pion/rtp); the interceptor API passes header and payload, so only the header form exists there
			pkts[i].PaddingSize, pkts[i].Header.PaddingSize = h.PaddingSize, 0 //nolint:staticcheck
		}
	}

	return pkts
}

var biased = []int{1, 2, 14, 15, 16, 45, 46, 47, 108, 109, 110}

// checkBatch applies the oracle to one EncodeFec result.
func checkBatch(media []rtp.Packet, fec []rtp.Packet, n int, nextFecSeq *uint16, haveFecSeq *bool) error {
	k := len(media)
	wires := map[int][]byte{}
	for i := range media {
		wires[i] = wire(&media[i])
	}
	if k > 109 && len(fec) == 0 {
		return nil // the FlexFEC-03 masks name indices 0..108: a larger batch is not an accepted configuration
	}
	if n >= 1 && len(fec) == 0 {
		return fmt.Errorf("%d media packets, %d FEC packets requested: no repair packet produced", k, n)
	}
	if len(fec) > n {
		return fmt.Errorf("%d repair packets for %d requested", len(fec), n)
	}
	covered := map[int]bool{}
	for fi := range fec {
		p := &fec[fi]
		if p.SSRC != fecSSRC || p.PayloadType != fecPT || p.Version != 2 {
			return fmt.Errorf("repair packet %d has SSRC %#x PT %d version %d, want the FEC SSRC %#x / PT %d", fi, p.SSRC, p.PayloadType, p.Version, fecSSRC, fecPT)
		}
		if *haveFecSeq && p.SequenceNumber != *nextFecSeq {
			return fmt.Errorf("repair packet %d has sequence number %d, want %d (previous + 1)", fi, p.SequenceNumber, *nextFecSeq)
		}
		*haveFecSeq, *nextFecSeq = true, p.SequenceNumber+1
		r, err := decodeRepair(p)
		if err != nil {
			return fmt.Errorf("repair packet %d: %w", fi, err)
		}
		if r.ssrc != media[0].SSRC || r.snBase != media[0].SequenceNumber {
			return fmt.Errorf("repair packet %d protects SSRC %#x from SN base %d, the batch is SSRC %#x from %d", fi, r.ssrc, r.snBase, media[0].SSRC, media[0].SequenceNumber)
		}
		if len(r.protected) == 0 {
			return fmt.Errorf("repair packet %d names no packet", fi)
		}
		for _, lost := range r.protected {
			if lost >= k {
				return fmt.Errorf("repair packet %d names packet index %d, the batch has %d", fi, lost, k)
			}
			covered[lost] = true
			got, err := r.recover(lost, wires)
			if err != nil {
				return fmt.Errorf("repair packet %d (protecting %v), recovering index %d: %w", fi, r.protected, lost, err)
			}
			if !bytes.Equal(got, wires[lost]) {
				d := 0
				for d < len(got) && d < len(wires[lost]) && got[d] == wires[lost][d] {
					d++
				}

				return fmt.Errorf("repair packet %d (protecting %v): packet index %d (seq %d, %d bytes) is reconstructed as %d bytes, first difference at byte %d (got % x, sent % x)",
					fi, r.protected, lost, media[lost].SequenceNumber, len(wires[lost]), len(got), d, got[d:min(d+8, len(got))], wires[lost][d:min(d+8, len(wires[lost]))])
			}
		}
	}
	if n >= 1 {
		for i := 0; i < k; i++ {
			if !covered[i] {
				return fmt.Errorf("media packet index %d of %d (seq %d) is protected by no repair packet (%d produced for %d requested)", i, k, media[i].SequenceNumber, len(fec), n)
			}
		}
	}

	return nil
}

func TestEncodeFecRecoversAnySingleLoss(t *testing.T) {
	rec := kit.NewRecorder("C14", "encoder-batches",
		"1..6 successive batches through one FlexEncoder03 with changing (k media, n FEC) biased to the mask-word boundaries {1,14,15,16,45,46,47,108,109,110}, base numbers incl. wrap, "+
			"packets of any header shape and payload 0..1500 differing within a batch; each repair packet is decoded from its wire bytes by an independent FlexFEC-03 decoder; "+
			"non-trivial = a batch with >= 2 distinct lengths that is not the encoder's first; distinct by configuration and content")
	rapid.Check(t, func(t *rapid.T) {
		enc := flexfec.NewFlexEncoder03(fecPT, fecSSRC)
		nb := rapid.IntRange(1, 6).Draw(t, "batches")
		var nextFecSeq uint16
		haveFecSeq := false
		base := kit.U16Boundary().Draw(t, "base")
		h := kit.NewH()
		nontrivial := false
		var specs []batchSpec
		for bi := 0; bi < nb; bi++ {
			k := rapid.OneOf(rapid.SampledFrom(biased), rapid.IntRange(1, 110), rapid.IntRange(1, 12)).Draw(t, "k")
			n := rapid.OneOf(rapid.SampledFrom(biased), rapid.IntRange(0, 110), rapid.IntRange(0, 6)).Draw(t, "n")
			media := genBatch(t, base, k, true)
			specs = append(specs, batchSpec{K: k, N: n, BaseSeq: base})
			lens := map[int]bool{}
			for i := range media {
				lens[media[i].MarshalSize()] = true
				h.U(uint64(media[i].MarshalSize()))
			}
			h.I(k, n).U(uint64(base))
			var fec []rtp.Packet
			if o := kit.Guard(0, func() { fec = enc.EncodeFec(media, uint32(n)) }); !o.OK() { //nolint:gosec
				t.Fatalf("batch %d (k=%d n=%d): EncodeFec: %s", bi, k, n, o)
			}
			if err := checkBatch(media, fec, n, &nextFecSeq, &haveFecSeq); err != nil {
				t.Fatalf("batch %d (k=%d media from seq %d, n=%d FEC): %v", bi, k, base, n, err)
			}
			if bi > 0 && len(lens) >= 2 && n >= 1 {
				nontrivial = true
			}
			base += uint16(k) //nolint:gosec
		}
		rec.Case(h.Sum(), nontrivial, []string{fmt.Sprintf("batches=%d", nb)}, func() any { return map[string]any{"batches": specs} })
	})
}

// TestInterceptorFecAfterMedia: through the interceptor, media packets pass first and unmodified and the repair
// packets that follow a completed batch satisfy the same decoder oracle.
func TestInterceptorFecAfterMedia(t *testing.T) {
	rec := kit.NewRecorder("C14", "interceptor-batches",
		"a FEC interceptor with generated (k, n) and 1..4 consecutive batches written through BindLocalStream; media must reach the next writer first and unchanged, "+
			"followed by repair packets that decode and recover every protected packet; non-trivial = >= 2 batches with n >= 1; distinct by configuration and content")
	rapid.Check(t, func(t *rapid.T) {
		k := rapid.OneOf(rapid.IntRange(1, 12), rapid.SampledFrom(biased), rapid.IntRange(1, 110)).Draw(t, "k")
		n := rapid.OneOf(rapid.IntRange(0, 4), rapid.IntRange(0, k)).Draw(t, "n")
		f, err := flexfec.NewFecInterceptor(flexfec.NumMediaPackets(uint32(k)), flexfec.NumFECPackets(uint32(n))) //nolint:gosec
		if err != nil {
			t.Fatalf("factory: %v", err)
		}
		ic, err := f.NewInterceptor("")
		if err != nil {
			t.Fatalf("NewInterceptor: %v", err)
		}
		sink := &kit.RTPSink{}
		w := ic.BindLocalStream(&interceptor.StreamInfo{SSRC: 0xABCD, SSRCForwardErrorCorrection: fecSSRC, PayloadTypeForwardErrorCorrection: fecPT}, sink)
		nb := rapid.IntRange(1, 4).Draw(t, "batches")
		base := kit.U16Boundary().Draw(t, "base")
		var nextFecSeq uint16
		haveFecSeq := false
		h := kit.NewH().I(k, n)
		for bi := 0; bi < nb; bi++ {
			media := genBatch(t, base, k, false)
			from := sink.Len()
			for i := range media {
				hdr := media[i].Header.Clone()
				pay := append([]byte(nil), media[i].Payload...)
				h.U(uint64(media[i].MarshalSize()))
				if _, err := w.Write(&hdr, pay, nil); err != nil {
					t.Fatalf("Write: %v", err)
				}
				// the sender owns header and payload again once Write has returned and reuses them for its next packet: the repair packets,
				// computed at the end of the batch, must still protect what was written
				for j := range hdr.CSRC {
					hdr.CSRC[j] = ^hdr.CSRC[j]
				}
				for _, id := range hdr.GetExtensionIDs() {
					ext := hdr.GetExtension(id)
					for j := range ext {
						ext[j] ^= 0xEE
					}
				}
				for j := range pay {
					pay[j] ^= 0x5A
				}
				calls := sink.Calls()
				idx := from + i
				if len(calls) <= idx {
					t.Fatalf("batch %d: media packet %d did not reach the next writer", bi, i)
				}
				if !kit.HeaderEqual(&calls[idx].Header, &media[i].Header) || !bytes.Equal(calls[idx].Payload, media[i].Payload) {
					t.Fatalf("batch %d: downstream write %d is not media packet %d unmodified (got seq %d ssrc %#x)", bi, idx, i, calls[idx].Header.SequenceNumber, calls[idx].Header.SSRC)
				}
				if i < k-1 && len(calls) != idx+1 {
					t.Fatalf("batch %d: %d extra packets written before the batch was complete", bi, len(calls)-idx-1)
				}
			}
			calls := sink.Calls()[from+k:]
			fec := make([]rtp.Packet, len(calls))
			for i, c := range calls {
				fec[i] = rtp.Packet{Header: c.Header, Payload: c.Payload}
			}
			if err := checkBatch(media, fec, n, &nextFecSeq, &haveFecSeq); err != nil {
				t.Fatalf("batch %d (k=%d from seq %d, n=%d): %v", bi, k, base, n, err)
			}
			base += uint16(k) //nolint:gosec
		}
		_ = ic.Close()
		rec.Case(h.Sum(), nb >= 2 && n >= 1, nil, func() any { return map[string]any{"k": k, "n": n, "batches": nb, "first_base": base} })
	})
}
