package c14

import (
	"testing"

	"github.com/pion/interceptor/pkg/flexfec"
	"github.com/pion/interceptor/verifharness/kit"
	"github.com/pion/rtp"
)

// TestRegressPaddingFillerNotInRepair: a padded packet encoded after a longer one must not leak scratch-buffer
// bytes into the repair data.
func TestRegressPaddingFillerNotInRepair(t *testing.T) {
	enc := flexfec.NewFlexEncoder03(fecPT, fecSSRC)
	long := []rtp.Packet{{Header: rtp.Header{Version: 2, SSRC: 0xABCD, SequenceNumber: 1}, Payload: kit.FillBytes(200, 7)}}
	_ = enc.EncodeFec(long, 1)
	media := []rtp.Packet{
		{Header: rtp.Header{Version: 2, SSRC: 0xABCD, SequenceNumber: 2, Padding: true, PaddingSize: 40}, Payload: []byte{1, 2, 3}},
		{Header: rtp.Header{Version: 2, SSRC: 0xABCD, SequenceNumber: 3}, Payload: kit.FillBytes(60, 9)},
	}
	fec := enc.EncodeFec(media, 1)
	var next uint16
	have := false
	if err := checkBatch(media, fec, 1, &next, &have); err != nil {
		kit.WriteReplay("TestRegressPaddingFillerNotInRepair", []byte(`{"batches":["1 x 200 bytes","padded(40) 3-byte packet + 60-byte packet"],"n":1}`))
		t.Fatalf("%v", err)
	}
}

// TestRegressMaskCannotName110: 110 media packets cannot be described by the FlexFEC-03 masks.
func TestRegressMaskCannotName110(t *testing.T) {
	enc := flexfec.NewFlexEncoder03(fecPT, fecSSRC)
	media := make([]rtp.Packet, 110)
	for i := range media {
		media[i] = rtp.Packet{Header: rtp.Header{Version: 2, SSRC: 0xABCD, SequenceNumber: uint16(i)}, Payload: kit.FillBytes(20+i, uint64(i))} //nolint:gosec
	}
	fec := enc.EncodeFec(media, 2)
	var next uint16
	have := false
	if err := checkBatch(media, fec, 2, &next, &have); err != nil {
		kit.WriteReplay("TestRegressMaskCannotName110", []byte(`{"k":110,"n":2}`))
		t.Fatalf("%v", err)
	}
}
