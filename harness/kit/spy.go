package kit

import (
	"bytes"
	"fmt"
	"runtime"
	"sync"
	"sync/atomic"
	"time"

	"github.com/pion/interceptor"
	"github.com/pion/rtcp"
	"github.com/pion/rtp"
)

// SentRTP is a deep copy of what reached an innermost RTP writer.
type SentRTP struct {
	Header  rtp.Header
	Payload []byte
	At      time.Time
	Attr    interceptor.Attributes
}

// RTPSink is an innermost RTPWriter that deep-copies what it is handed and can fail at chosen calls.
type RTPSink struct {
	mu     sync.Mutex
	calls  []SentRTP
	FailAt map[int]error // call index -> error
	OnCall func(SentRTP) // optional, called outside the lock
	// Hold makes every write a slow transport: after the copy taken on entry the sink yields / sleeps and then compares what
	// the caller handed in with that copy. A writer is entitled to the header and payload for the duration of the call.
	HoldYields int
	HoldSleep  time.Duration
	tampered   []string
	inFlight   atomic.Int32
	// StampExtension > 0: after taking its copy the sink sets a header extension with this id on the header it was handed, as the
	// library's own transport-cc header-extension writer does with every header that passes through it (errors ignored).
	StampExtension uint8
	stamps         atomic.Uint32
}

// InFlight returns the number of Write calls that have started but not yet returned.
func (s *RTPSink) InFlight() int { return int(s.inFlight.Load()) }

// SetFailAt replaces the table of failing call indices (nil: none fail).
func (s *RTPSink) SetFailAt(m map[int]error) {
	s.mu.Lock()
	s.FailAt = m
	s.mu.Unlock()
}

// Tampered lists the writes whose header or payload changed while the sink was still inside Write.
func (s *RTPSink) Tampered() []string {
	s.mu.Lock()
	defer s.mu.Unlock()

	return append([]string(nil), s.tampered...)
}

// Write implements interceptor.RTPWriter.
func (s *RTPSink) Write(h *rtp.Header, p []byte, a interceptor.Attributes) (int, error) {
	s.inFlight.Add(1)
	defer s.inFlight.Add(-1)
	rec := SentRTP{Header: h.Clone(), Payload: append([]byte(nil), p...), At: time.Now(), Attr: a}
	s.mu.Lock()
	idx := len(s.calls)
	s.calls = append(s.calls, rec)
	err := s.FailAt[idx]
	s.mu.Unlock()
	if s.OnCall != nil {
		s.OnCall(rec)
	}
	if s.StampExtension > 0 {
		n := s.stamps.Add(1)
		_ = h.SetExtension(s.StampExtension, []byte{byte(n >> 8), byte(n)})
		rec.Header = h.Clone() // the comparison below is about changes made by others while the sink holds the packet
	}
	if s.HoldYields > 0 || s.HoldSleep > 0 {
		for i := 0; i < s.HoldYields; i++ {
			runtime.Gosched()
		}
		if s.HoldSleep > 0 {
			time.Sleep(s.HoldSleep)
		}
		if !bytes.Equal(p, rec.Payload) || !HeaderEqual(h, &rec.Header) {
			s.mu.Lock()
			s.tampered = append(s.tampered, fmt.Sprintf("write %d (ssrc %d seq %d, %d payload bytes): header or payload changed while the writer was still inside Write", idx, rec.Header.SSRC, rec.Header.SequenceNumber, len(rec.Payload)))
			s.mu.Unlock()
		}
	}
	if err != nil {
		return 0, err
	}

	return h.MarshalSize() + len(p) + int(h.PaddingSize), nil
}

// Calls returns a snapshot of everything written so far.
func (s *RTPSink) Calls() []SentRTP {
	s.mu.Lock()
	defer s.mu.Unlock()

	return append([]SentRTP(nil), s.calls...)
}

// Len returns the number of calls so far.
func (s *RTPSink) Len() int {
	s.mu.Lock()
	defer s.mu.Unlock()

	return len(s.calls)
}

// SentRTCP is what reached an innermost RTCP writer: each packet re-marshalled at the time of the call.
type SentRTCP struct {
	Pkts []rtcp.Packet
	Raw  [][]byte // Marshal() of each packet at call time (nil entry when Marshal failed)
	At   time.Time
}

// RTCPSink is an innermost RTCPWriter.
type RTCPSink struct {
	mu     sync.Mutex
	calls  []SentRTCP
	FailAt map[int]error
	OnCall func(SentRTCP)
	failIf func(SentRTCP) error
	// Delay makes every write take this long (a slow transport), so that "still inside a write" is observable.
	Delay    time.Duration
	fast     atomic.Bool // Delay suspended (SetFast)
	inFlight atomic.Int32
}

// SetFast suspends (true) or restores (false) the Delay of a slow transport.
func (s *RTCPSink) SetFast(on bool) { s.fast.Store(on) }

// InFlight returns the number of Write calls that have started but not yet returned.
func (s *RTCPSink) InFlight() int { return int(s.inFlight.Load()) }

// SetFailIf installs (or clears) a predicate that makes matching writes fail; other goroutines' writes are unaffected.
func (s *RTCPSink) SetFailIf(f func(SentRTCP) error) {
	s.mu.Lock()
	s.failIf = f
	s.mu.Unlock()
}

// Write implements interceptor.RTCPWriter.
func (s *RTCPSink) Write(pkts []rtcp.Packet, _ interceptor.Attributes) (int, error) {
	s.inFlight.Add(1)
	defer s.inFlight.Add(-1)
	if s.Delay > 0 && !s.fast.Load() {
		defer time.Sleep(s.Delay)
	}
	rec := SentRTCP{Pkts: append([]rtcp.Packet(nil), pkts...), At: time.Now()}
	n := 0
	for _, p := range pkts {
		b, err := p.Marshal()
		if err != nil {
			rec.Raw = append(rec.Raw, nil)

			continue
		}
		n += len(b)
		rec.Raw = append(rec.Raw, b)
	}
	s.mu.Lock()
	idx := len(s.calls)
	s.calls = append(s.calls, rec)
	err := s.FailAt[idx]
	if err == nil && s.failIf != nil {
		err = s.failIf(rec)
	}
	s.mu.Unlock()
	if s.OnCall != nil {
		s.OnCall(rec)
	}
	if err != nil {
		return 0, err
	}

	return n, nil
}

// Calls returns a snapshot.
func (s *RTCPSink) Calls() []SentRTCP {
	s.mu.Lock()
	defer s.mu.Unlock()

	return append([]SentRTCP(nil), s.calls...)
}

// Len returns the number of calls so far.
func (s *RTCPSink) Len() int {
	s.mu.Lock()
	defer s.mu.Unlock()

	return len(s.calls)
}

// ByteSource is an innermost reader (RTP or RTCP): each Read serves the next queued packet by copying
// its n bytes into the caller's buffer, as a transport would. The caller's buffer is normally larger and
// still holds older bytes. A queued error is returned instead of a packet.
type ByteSource struct {
	mu    sync.Mutex
	queue []sourceItem
}

type sourceItem struct {
	data []byte
	err  error
	attr interceptor.Attributes
}

// Push queues a packet.
func (s *ByteSource) Push(b []byte) {
	s.mu.Lock()
	s.queue = append(s.queue, sourceItem{data: b})
	s.mu.Unlock()
}

// PushErr queues a failing read.
func (s *ByteSource) PushErr(err error) {
	s.mu.Lock()
	s.queue = append(s.queue, sourceItem{err: err})
	s.mu.Unlock()
}

// Read implements RTPReader and RTCPReader. Reading from an empty source is a harness bug.
func (s *ByteSource) Read(b []byte, a interceptor.Attributes) (int, interceptor.Attributes, error) {
	s.mu.Lock()
	if len(s.queue) == 0 {
		s.mu.Unlock()
		panic("kit.ByteSource: read from empty source (harness bug)")
	}
	it := s.queue[0]
	s.queue = s.queue[1:]
	s.mu.Unlock()
	if it.err != nil {
		return 0, a, it.err
	}
	n := copy(b, it.data)

	return n, a, nil
}

// DirtyBuffer returns a read buffer of the given size pre-filled with non-zero junk.
func DirtyBuffer(size int) []byte {
	b := make([]byte, size)
	for i := range b {
		b[i] = byte(0xA5 ^ i)
	}

	return b
}
