package kit

import (
	"github.com/pion/rtcp"
	"pgregory.net/rapid"
)

// TWCCStatus is the symbolic ground truth for one transport sequence number of a feedback.
type TWCCStatus struct {
	Received bool
	Delta250 int64 // receive delta in units of 250 us relative to the previous received packet (or the reference time)
}

// TWCCSpec is a symbolic transport-cc feedback.
type TWCCSpec struct {
	Base     uint16
	RefTime  uint32 // 24 bit, multiples of 64 ms
	FbCount  uint8
	Statuses []TWCCStatus
	// OvershootAnySymbol lets the final run-length chunk run past the status count whatever its symbol (there are receive
	// deltas for the declared statuses only); otherwise only a final not-received run overshoots.
	OvershootAnySymbol bool
}

func symbolOf(s TWCCStatus) uint16 {
	switch {
	case !s.Received:
		return rtcp.TypeTCCPacketNotReceived
	case s.Delta250 >= 0 && s.Delta250 <= 255:
		return rtcp.TypeTCCPacketReceivedSmallDelta
	default:
		return rtcp.TypeTCCPacketReceivedLargeDelta
	}
}

// EncodeTWCC builds a well-formed rtcp.TransportLayerCC for spec with a free (generated) choice of chunk
// encodings: run-length, 1-bit and 2-bit status vectors, zero-padded final chunk. overshoot > 0 lets a final
// not-received run-length chunk run past the status count (some encoders do; decoders must stop at the count).
func EncodeTWCC(t *rapid.T, spec TWCCSpec, overshoot int) *rtcp.TransportLayerCC {
	syms := make([]uint16, len(spec.Statuses))
	for i, s := range spec.Statuses {
		syms[i] = symbolOf(s)
	}
	fb := &rtcp.TransportLayerCC{
		SenderSSRC: 1, MediaSSRC: 2, BaseSequenceNumber: spec.Base, PacketStatusCount: uint16(len(syms)), //nolint:gosec
		ReferenceTime: spec.RefTime & 0xffffff, FbPktCount: spec.FbCount,
	}
	i := 0
	for i < len(syms) {
		run := 1
		for i+run < len(syms) && syms[i+run] == syms[i] && run < 0x1fff {
			run++
		}
		hasLarge := false
		for k := i; k < min(i+14, len(syms)); k++ {
			if syms[k] == rtcp.TypeTCCPacketReceivedLargeDelta {
				hasLarge = true
			}
		}
		kind := rapid.IntRange(0, 2).Draw(t, "chunk")
		switch {
		case kind == 0 || (kind == 1 && hasLarge && run >= 7) || run > 14:
			n := run
			if run > 1 && rapid.Bool().Draw(t, "splitRun") {
				n = rapid.IntRange(1, run).Draw(t, "runLen")
			}
			rl := uint16(n) //nolint:gosec
			if i+n == len(syms) && (syms[i] == rtcp.TypeTCCPacketNotReceived || spec.OvershootAnySymbol) && overshoot > 0 {
				rl += uint16(overshoot) //nolint:gosec
			}
			fb.PacketChunks = append(fb.PacketChunks, &rtcp.RunLengthChunk{Type: rtcp.TypeTCCRunLengthChunk, PacketStatusSymbol: syms[i], RunLength: rl})
			i += n
		case kind == 1 && !hasLarge:
			list := make([]uint16, 14)
			copy(list, syms[i:min(i+14, len(syms))])
			fb.PacketChunks = append(fb.PacketChunks, &rtcp.StatusVectorChunk{Type: rtcp.TypeTCCStatusVectorChunk, SymbolSize: rtcp.TypeTCCSymbolSizeOneBit, SymbolList: list})
			i += 14
		default:
			list := make([]uint16, 7)
			copy(list, syms[i:min(i+7, len(syms))])
			fb.PacketChunks = append(fb.PacketChunks, &rtcp.StatusVectorChunk{Type: rtcp.TypeTCCStatusVectorChunk, SymbolSize: rtcp.TypeTCCSymbolSizeTwoBit, SymbolList: list})
			i += 7
		}
	}
	deltaBytes := 0
	for k, s := range spec.Statuses {
		if !s.Received {
			continue
		}
		fb.RecvDeltas = append(fb.RecvDeltas, &rtcp.RecvDelta{Type: syms[k], Delta: s.Delta250 * 250})
		if syms[k] == rtcp.TypeTCCPacketReceivedSmallDelta {
			deltaBytes++
		} else {
			deltaBytes += 2
		}
	}
	size := 20 + 2*len(fb.PacketChunks) + deltaBytes
	padding := size%4 != 0
	for size%4 != 0 {
		size++
	}
	// note: pion/rtcp's parser wants at least one octet after the last status chunk, so a feedback without
	// any received status whose chunks end on a word boundary cannot be delivered as bytes (callers that
	// marshal keep at least one received status)
	fb.Header = rtcp.Header{Count: rtcp.FormatTCC, Type: rtcp.TypeTransportSpecificFeedback, Padding: padding, Length: uint16(size/4 - 1)} //nolint:gosec

	return fb
}
