package kit

import (
	"errors"
	"fmt"
	"io"
	"sync"
	"sync/atomic"
	"time"

	"github.com/pion/interceptor"
	"github.com/pion/interceptor/pkg/cc"
	"github.com/pion/interceptor/pkg/flexfec"
	"github.com/pion/interceptor/pkg/gcc"
	"github.com/pion/interceptor/pkg/intervalpli"
	"github.com/pion/interceptor/pkg/jitterbuffer"
	"github.com/pion/interceptor/pkg/nack"
	"github.com/pion/interceptor/pkg/pacing"
	"github.com/pion/interceptor/pkg/packetdump"
	"github.com/pion/interceptor/pkg/report"
	"github.com/pion/interceptor/pkg/rfc8888"
	"github.com/pion/interceptor/pkg/rtpfb"
	"github.com/pion/interceptor/pkg/stats"
	"github.com/pion/interceptor/pkg/twcc"
	"github.com/pion/logging"
	"github.com/pion/rtcp"
	"github.com/pion/rtp"
)

// TransportCCURI is the header extension URI of the transport-wide-cc extension.
const TransportCCURI = "http://www.ietf.org/id/draft-holmer-rmcat-transport-wide-cc-extensions-01"

// Member describes one interceptor factory of the library, configured with short intervals.
type Member struct {
	Name    string
	Factory interceptor.Factory
	// Async: outgoing RTP is delivered by a timer goroutine (pacers), not inside the Write call.
	Async bool
	// Buffering: incoming RTP is held back and released later (jitter buffer).
	Buffering bool
	// Stats is set for the stats interceptor: returns the getter after NewInterceptor.
	Stats func() stats.Getter
	// BWE is set for the cc interceptor: returns the estimator after NewInterceptor.
	BWE func() cc.BandwidthEstimator
	// Pacing is set for the pacing interceptor.
	Pacing *pacing.InterceptorFactory
}

// PassThroughNames lists the non-buffering interceptors of C01's chains.
var PassThroughNames = []string{
	"nack-generator", "nack-generator-limited", "nack-responder", "nack-responder-rtx", "nack-responder-small", "report-receiver", "report-sender", "twcc-sender", "twcc-header-extension",
	"rfc8888", "rtpfb", "stats", "packetdump-sender", "packetdump-receiver", "packetdump-sender-filtered", "packetdump-receiver-filtered", "packetdump-sender-custom", "packetdump-receiver-custom", "intervalpli", "flexfec", "cc-noop-pacer", "cc-user-pacer", "noop",
}

// AllNames adds the buffering / pacing ones.
var AllNames = append(append([]string{}, PassThroughNames...), "jitterbuffer", "pacing", "cc-leaky-bucket")

// countingPacketLogger is a packetdump.PacketLogger of the application: it looks at what it is shown for the duration of the
// call and keeps nothing.
type countingPacketLogger struct {
	rtpBytes, rtcpPkts atomic.Int64
}

func (l *countingPacketLogger) LogRTPPacket(h *rtp.Header, payload []byte, _ interceptor.Attributes) {
	l.rtpBytes.Add(int64(h.MarshalSize() + len(payload)))
}

func (l *countingPacketLogger) LogRTCPPackets(pkts []rtcp.Packet, _ interceptor.Attributes) {
	l.rtcpPkts.Add(int64(len(pkts)))
}

// closeFailsOncePacer is a legal gcc.Pacer of the application.
type closeFailsOncePacer struct {
	*gcc.NoOpPacer
	mu     sync.Mutex
	closes int
}

func (p *closeFailsOncePacer) Close() error {
	p.mu.Lock()
	defer p.mu.Unlock()
	p.closes++
	if p.closes == 1 {
		return errors.New("user pacer: flush failed")
	}

	return nil
}

type quietLoggerFactory struct{}

func (quietLoggerFactory) NewLogger(string) logging.LeveledLogger { return quietLogger{} }

type quietLogger struct{}

func (quietLogger) Trace(string)          {}
func (quietLogger) Tracef(string, ...any) {}
func (quietLogger) Debug(string)          {}
func (quietLogger) Debugf(string, ...any) {}
func (quietLogger) Info(string)           {}
func (quietLogger) Infof(string, ...any)  {}
func (quietLogger) Warn(string)           {}
func (quietLogger) Warnf(string, ...any)  {}
func (quietLogger) Error(string)          {}
func (quietLogger) Errorf(string, ...any) {}

// QuietLoggers returns a logger factory that discards everything (malformed input is logged loudly otherwise).
func QuietLoggers() logging.LoggerFactory { return quietLoggerFactory{} }

type factoryFunc func(id string) (interceptor.Interceptor, error)

func (f factoryFunc) NewInterceptor(id string) (interceptor.Interceptor, error) { return f(id) }

// NewMember builds the named member. interval is used for every ticker-driven interceptor.
func NewMember(name string, interval time.Duration) Member { //nolint:cyclop
	m := Member{Name: name}
	lf := QuietLoggers()
	must := func(f interceptor.Factory, err error) interceptor.Factory {
		if err != nil {
			panic("kit: factory " + name + ": " + err.Error())
		}

		return f
	}
	switch name {
	case "nack-generator":
		m.Factory = must(nack.NewGeneratorInterceptor(nack.GeneratorInterval(interval), nack.GeneratorSize(64), nack.WithGeneratorLoggerFactory(lf)))
	case "nack-generator-limited":
		m.Factory = must(nack.NewGeneratorInterceptor(nack.GeneratorInterval(interval), nack.GeneratorSize(128), nack.GeneratorMaxNacksPerPacket(2), nack.GeneratorSkipLastN(1),
			nack.WithGeneratorLoggerFactory(lf)))
	case "nack-responder-small":
		// a history of four packets: packets are evicted (and their pooled buffers reused) while retransmissions of them are still being written
		m.Factory = must(nack.NewResponderInterceptor(nack.ResponderSize(4), nack.WithResponderLoggerFactory(lf)))
	case "nack-responder":
		m.Factory = must(nack.NewResponderInterceptor(nack.ResponderSize(64), nack.WithResponderLoggerFactory(lf)))
	case "nack-responder-rtx":
		m.Factory = must(nack.NewResponderInterceptor(nack.ResponderSize(128), nack.WithResponderLoggerFactory(lf)))
	case "report-receiver":
		m.Factory = must(report.NewReceiverInterceptor(report.ReceiverInterval(interval), report.WithReceiverLoggerFactory(lf)))
	case "report-sender":
		m.Factory = must(report.NewSenderInterceptor(report.SenderInterval(interval), report.WithSenderLoggerFactory(lf)))
	case "twcc-sender":
		m.Factory = must(twcc.NewSenderInterceptor(twcc.SendInterval(interval), twcc.WithLoggerFactory(lf)))
	case "twcc-header-extension":
		m.Factory = must(twcc.NewHeaderExtensionInterceptor())
	case "rfc8888":
		m.Factory = must(rfc8888.NewSenderInterceptor(rfc8888.SendInterval(interval), rfc8888.WithLoggerFactory(lf)))
	case "rtpfb":
		m.Factory = must(rtpfb.NewInterceptor(rtpfb.WithLoggerFactory(lf)))
	case "stats":
		f, err := stats.NewInterceptor(stats.WithLoggerFactory(lf))
		if err != nil {
			panic(err)
		}
		var g stats.Getter
		f.OnNewPeerConnection(func(_ string, gg stats.Getter) { g = gg })
		m.Factory = f
		m.Stats = func() stats.Getter { return g }
	case "packetdump-sender":
		m.Factory = must(packetdump.NewSenderInterceptor(packetdump.RTPWriter(io.Discard), packetdump.RTCPWriter(io.Discard), packetdump.WithLoggerFactory(lf)))
	case "packetdump-sender-filtered", "packetdump-receiver-filtered":
		// binary formatters only, with filters that reject some packets of a batch: the dumper must still pass everything on untouched
		opts := []packetdump.PacketDumperOption{
			packetdump.RTPWriter(io.Discard), packetdump.RTCPWriter(io.Discard), packetdump.WithLoggerFactory(lf),
			packetdump.RTPBinaryFormatter(func(p *rtp.Packet, _ interceptor.Attributes) ([]byte, error) { return p.Marshal() }),
			// (not p.Marshal(): pion/rtcp's ExtendedReport.Marshal writes block headers into the packet, which races with every other holder of it)
			packetdump.RTCPBinaryFormatter(func(p rtcp.Packet, _ interceptor.Attributes) ([]byte, error) {
				return []byte(fmt.Sprintf("%T", p)), nil
			}),
			packetdump.RTPFilter(func(p *rtp.Packet) bool { return p.SequenceNumber%3 != 0 }),
			packetdump.RTCPPerPacketFilter(func(p rtcp.Packet) bool {
				_, isRR := p.(*rtcp.ReceiverReport)
				_, isSR := p.(*rtcp.SenderReport)

				return !isRR && !isSR
			}),
		}
		if name == "packetdump-sender-filtered" {
			m.Factory = must(packetdump.NewSenderInterceptor(opts...))
		} else {
			m.Factory = must(packetdump.NewReceiverInterceptor(opts...))
		}
	case "packetdump-sender-custom", "packetdump-receiver-custom":
		// the application's own packet logger in place of the built-in one (packetdump.PacketLog)
		opts := []packetdump.PacketDumperOption{packetdump.PacketLog(&countingPacketLogger{}), packetdump.WithLoggerFactory(lf)}
		if name == "packetdump-sender-custom" {
			m.Factory = must(packetdump.NewSenderInterceptor(opts...))
		} else {
			m.Factory = must(packetdump.NewReceiverInterceptor(opts...))
		}
	case "packetdump-receiver":
		m.Factory = must(packetdump.NewReceiverInterceptor(packetdump.RTPWriter(io.Discard), packetdump.RTCPWriter(io.Discard), packetdump.WithLoggerFactory(lf)))
	case "intervalpli":
		m.Factory = must(intervalpli.NewReceiverInterceptor(intervalpli.GeneratorInterval(interval), intervalpli.WithLoggerFactory(lf)))
	case "flexfec":
		m.Factory = must(flexfec.NewFecInterceptor(flexfec.NumMediaPackets(4), flexfec.NumFECPackets(2)))
	case "cc-noop-pacer", "cc-leaky-bucket", "cc-user-pacer":
		var est cc.BandwidthEstimator
		f, err := cc.NewInterceptor(func() (cc.BandwidthEstimator, error) {
			opts := []gcc.Option{gcc.WithLoggerFactory(lf)}
			if name == "cc-noop-pacer" {
				opts = append(opts, gcc.SendSideBWEPacer(gcc.NewNoOpPacer()))
			} else if name == "cc-user-pacer" {
				// an application's own pacer: forwards at once, and its Close reports an error the first time it is called
				opts = append(opts, gcc.SendSideBWEPacer(&closeFailsOncePacer{NoOpPacer: gcc.NewNoOpPacer()}))
			} else {
				opts = append(opts, gcc.SendSideBWEInitialBitrate(200_000_000), gcc.SendSideBWEMaxBitrate(1_000_000_000))
			}

			return gcc.NewSendSideBWE(opts...)
		})
		if err != nil {
			panic(err)
		}
		f.OnNewPeerConnection(func(_ string, e cc.BandwidthEstimator) { est = e })
		m.Factory = f
		m.BWE = func() cc.BandwidthEstimator { return est }
		m.Async = name == "cc-leaky-bucket"
	case "noop":
		m.Factory = factoryFunc(func(string) (interceptor.Interceptor, error) { return &interceptor.NoOp{}, nil })
	case "jitterbuffer":
		m.Factory = must(jitterbuffer.NewInterceptor(jitterbuffer.WithLoggerFactory(lf)))
		m.Buffering = true
	case "pacing":
		pf := pacing.NewInterceptor(pacing.InitialRate(500_000_000), pacing.Interval(time.Millisecond), pacing.WithLoggerFactory(lf))
		m.Factory = pf
		m.Pacing = pf
		m.Async = true
	default:
		panic("kit: unknown member " + name)
	}

	return m
}

// LocalInfo returns a StreamInfo for an outgoing stream that negotiates everything the members react to.
func LocalInfo(ssrc uint32, twccID int, rtx, fec bool) *interceptor.StreamInfo {
	info := &interceptor.StreamInfo{
		SSRC: ssrc, PayloadType: 96, ClockRate: 90000, MimeType: "video/VP8",
		RTCPFeedback: []interceptor.RTCPFeedback{{Type: "nack"}, {Type: "nack", Parameter: "pli"}, {Type: "transport-cc"}},
	}
	if twccID > 0 {
		info.RTPHeaderExtensions = []interceptor.RTPHeaderExtension{{URI: TransportCCURI, ID: twccID}}
	}
	if rtx {
		info.SSRCRetransmission, info.PayloadTypeRetransmission = ssrc+0x1000, 97
	}
	if fec {
		info.SSRCForwardErrorCorrection, info.PayloadTypeForwardErrorCorrection = ssrc+0x2000, 118
	}

	return info
}

// RemoteInfo returns a StreamInfo for an incoming stream.
func RemoteInfo(ssrc uint32, twccID int) *interceptor.StreamInfo {
	return LocalInfo(ssrc, twccID, false, false)
}

// WithTWCC returns a copy of the header carrying the transport-cc extension.
func WithTWCC(h rtp.Header, id uint8, seq uint16) rtp.Header {
	c := h.Clone()
	ext, _ := (rtp.TransportCCExtension{TransportSequence: seq}).Marshal()
	_ = c.SetExtension(id, ext)

	return c
}
