package kit

import (
	"fmt"
	"os"
	"runtime"
	"runtime/debug"
	"sync"
	"sync/atomic"
	"time"
)

// DefaultDeadline is far above any legitimate latency of the calls guarded, even on a busy machine.
var DefaultDeadline = 20 * time.Second

// Outcome of a guarded call.
type Outcome struct {
	TimedOut bool
	Panic    any
	Stack    string
}

// OK reports whether the call returned normally.
func (o Outcome) OK() bool { return !o.TimedOut && o.Panic == nil }

func (o Outcome) String() string {
	switch {
	case o.TimedOut:
		armHangExit()

		return "call did not return within the watchdog deadline"
	case o.Panic != nil:
		return fmt.Sprintf("panic: %v\n%s", o.Panic, o.Stack)
	default:
		return "ok"
	}
}

// Guard runs fn on a helper goroutine with a deadline. A panic inside fn is recovered and handed back
// (otherwise it would kill the process and bypass shrinking); on expiry the helper is leaked.
func Guard(d time.Duration, fn func()) Outcome {
	if d <= 0 {
		d = DefaultDeadline
	}
	done := make(chan Outcome, 1)
	go func() {
		defer func() {
			if r := recover(); r != nil {
				done <- Outcome{Panic: r, Stack: string(debug.Stack())}
			}
		}()
		fn()
		done <- Outcome{}
	}()
	tm := time.NewTimer(d)
	defer tm.Stop()
	select {
	case o := <-done:
		return o
	case <-tm.C:
	}
	// Not back within the deadline. A call that is blocked for good stays blocked; a process that was merely stalled (a machine
	// busy enough to freeze two test processes for 20 s at the same moment has been observed) returns once it runs again.
	// Twice the deadline more decides which of the two it is: "never blocks indefinitely" is not violated by a call that came back.
	grace := time.NewTimer(2 * d)
	defer grace.Stop()
	select {
	case o := <-done:
		slowCalls.Add(1)
		fmt.Fprintf(os.Stderr, "VERIF-SLOW a guarded call returned only after its %v deadline (machine stalled?)\n", d)

		return o
	case <-grace.C:
		return Outcome{TimedOut: true}
	}
}

var slowCalls atomic.Int64

// SlowCalls counts guarded calls that came back after their deadline but within the grace period.
func SlowCalls() int64 { return slowCalls.Load() }

// Recover runs fn in the calling goroutine and converts a panic into an Outcome.
func Recover(fn func()) (o Outcome) {
	defer func() {
		if r := recover(); r != nil {
			o = Outcome{Panic: r, Stack: string(debug.Stack())}
		}
	}()
	fn()

	return Outcome{}
}

// WaitGoroutines polls until runtime.NumGoroutine() <= base or the timeout expires; returns the last count.
func WaitGoroutines(base int, timeout time.Duration) int {
	deadline := time.Now().Add(timeout)
	sleep := 20 * time.Microsecond
	for i := 0; ; i++ {
		n := runtime.NumGoroutine()
		if n <= base || time.Now().After(deadline) {
			return n
		}
		if i < 3000 { // timer sleeps are coarse (~1 ms); yield first, the wait is usually microseconds
			runtime.Gosched()

			continue
		}
		time.Sleep(sleep)
		if sleep < 2*time.Millisecond {
			sleep *= 2
		}
	}
}

// Eventually polls cond until it holds or the timeout expires.
func Eventually(timeout time.Duration, cond func() bool) bool {
	deadline := time.Now().Add(timeout)
	sleep := 20 * time.Microsecond
	for i := 0; ; i++ {
		if cond() {
			return true
		}
		if time.Now().After(deadline) {
			return false
		}
		if i < 3000 {
			runtime.Gosched()

			continue
		}
		time.Sleep(sleep)
		if sleep < 2*time.Millisecond {
			sleep *= 2
		}
	}
}

// Journal writes the encoded case about to run, so that a crash of the whole process (panic in a
// background goroutine) can still be turned into a replay file by the driver.
func Journal(test string, data []byte) {
	dir := os.Getenv("VERIF_JOURNAL_DIR")
	if dir == "" {
		return
	}
	_ = os.WriteFile(fmt.Sprintf("%s/%s@%d.case", dir, test, os.Getpid()), data, 0o644)
}

// ReplayFile returns the custom (non-rapid) replay file handed in by the driver, if any.
func ReplayFile() string { return os.Getenv("VERIF_REPLAY") }

// WriteReplay stores a custom replay (for non-rapid checks) and returns its path.
func WriteReplay(test string, data []byte) string {
	dir := os.Getenv("VERIF_REPLAY_DIR")
	if dir == "" {
		dir = os.TempDir()
	}
	_ = os.MkdirAll(dir, 0o755)
	path := fmt.Sprintf("%s/%s@%d-%d.json", dir, test, os.Getpid(), time.Now().UnixNano())
	_ = os.WriteFile(path, data, 0o644)
	fmt.Printf("VERIF-REPLAY %s\n", path)

	return path
}

// StableGoroutines yields until runtime.NumGoroutine() has not changed for a while (helper goroutines of
// earlier guarded calls have exited) and returns the count: the baseline for quiescence waits.
func StableGoroutines() int {
	last, same := runtime.NumGoroutine(), 0
	since := time.Now()
	for i := 0; i < 1000000 && (same < 200 || time.Since(since) < 300*time.Microsecond); i++ {
		runtime.Gosched()
		n := runtime.NumGoroutine()
		if n == last {
			same++
		} else {
			last, same, since = n, 0, time.Now()
		}
	}

	return last
}

// BoundedClose runs a cleanup (Close of the subject) that can block forever on a tree that breaks the
// property - the check has already failed by then - without wedging the process, so the failure is
// reported instead of a timeout.
func BoundedClose(f func() error) {
	done := make(chan struct{})
	go func() {
		defer close(done)
		defer func() { _ = recover() }()
		_ = f()
	}()
	select {
	case <-done:
	case <-time.After(3 * time.Second):
	}
}

var hangOnce sync.Once

// armHangExit is reached only when a check is already reporting "a call into the code under test did not
// return" (Outcome.String is used for failure messages only). The blocked call can hold locks that wedge
// the rest of the case (cleanup, shrinking); if the process is still alive long after the failure was
// decided, it dumps all goroutines and exits with a marker the driver turns into the violation, instead
// of the failure being lost in a wall-clock timeout.
func armHangExit() {
	hangOnce.Do(func() {
		go func() {
			time.Sleep(time.Duration(EnvInt("VERIF_HANG_EXIT_S", 240)) * time.Second)
			buf := make([]byte, 1<<20)
			buf = buf[:runtime.Stack(buf, true)]
			fmt.Printf("VERIF-HANG a guarded call into the code under test did not return and the process stayed wedged afterwards\n%s\n", buf)
			os.Exit(7)
		}()
	})
}

var idleFloor atomic.Int64

// Idle is called at the start of a case, before anything is built: it waits until the process is back at
// its idle goroutine count (helpers and subjects of the previous case have really exited - on a loaded
// machine a finished goroutine can stay counted for milliseconds) and returns that count. Baselines taken
// later in the case are then exact instead of "stable for a while". The floor is learnt at the first case
// and re-learnt (after settling for much longer) only when an earlier case leaked a goroutine for good.
func Idle() int {
	if f := int(idleFloor.Load()); f > 0 {
		if n := WaitGoroutines(f, 2*time.Second); n <= f {
			if n < f {
				idleFloor.Store(int64(n))
			}

			return n
		}
	}
	last, since := runtime.NumGoroutine(), time.Now()
	for time.Since(since) < 20*time.Millisecond {
		runtime.Gosched()
		if n := runtime.NumGoroutine(); n != last {
			last, since = n, time.Now()
		}
	}
	idleFloor.Store(int64(last))

	return last
}
