package kit

import (
	"encoding/binary"
	"encoding/json"
	"fmt"
	"hash/fnv"
	"os"
	"sort"
	"strconv"
	"sync"
	"testing"
)

// Recorder collects what one sub-property of one listed property actually explored in this process.
// It is written out by Main (TestMain) as a fragment that the driver merges into evidence/<ID>.json.
type Recorder struct {
	Prop string
	Sub  string
	Rule string

	mu         sync.Mutex
	evals      int
	nontrivial map[uint64]struct{}
	classes    map[string]int
	samples    []any
	knownHits  map[string]int
	excluded   map[string]int
	extra      map[string]any
	exhaustive bool
}

var (
	recMu     sync.Mutex
	recorders []*Recorder
)

// NewRecorder registers a recorder. rule states how cases are generated and what makes one non-trivial.
func NewRecorder(prop, sub, rule string) *Recorder {
	r := &Recorder{
		Prop: prop, Sub: sub, Rule: rule,
		nontrivial: map[uint64]struct{}{}, classes: map[string]int{},
		knownHits: map[string]int{}, excluded: map[string]int{}, extra: map[string]any{},
	}
	recMu.Lock()
	recorders = append(recorders, r)
	recMu.Unlock()

	return r
}

// Case records one generated case. hash identifies the case (canonical encoding); nontrivial is the
// property's stated rule evaluated on it; classes feed the generator histogram; sample is only called
// for the few cases that are written out in full.
func (r *Recorder) Case(hash uint64, nontrivial bool, classes []string, sample func() any) {
	r.mu.Lock()
	defer r.mu.Unlock()
	r.evals++
	for _, c := range classes {
		r.classes[c]++
	}
	if !nontrivial {
		return
	}
	_, seen := r.nontrivial[hash]
	r.nontrivial[hash] = struct{}{}
	if seen || sample == nil {
		return
	}
	n := len(r.nontrivial)
	// keep the 1st, 2nd, 10th, 100th, 1000th ... distinct non-trivial case
	if n <= 2 || n == 10 || n == 100 || n == 1000 || n == 10000 {
		if len(r.samples) < 6 {
			r.samples = append(r.samples, sample())
		}
	}
}

// Class bumps a histogram class outside of Case.
func (r *Recorder) Class(c string, n int) {
	r.mu.Lock()
	r.classes[c] += n
	r.mu.Unlock()
}

// KnownHit counts a discrepancy that matched the exemption predicate of a listed known finding.
func (r *Recorder) KnownHit(id string) {
	r.mu.Lock()
	r.knownHits[id]++
	r.mu.Unlock()
}

// Excluded counts a draw that was excluded by construction because of a listed known finding.
func (r *Recorder) Excluded(id string) {
	r.mu.Lock()
	r.excluded[id]++
	r.mu.Unlock()
}

// Set stores an extra coverage key.
func (r *Recorder) Set(key string, v any) {
	r.mu.Lock()
	r.extra[key] = v
	r.mu.Unlock()
}

// SetExhaustive marks the sub-domain of this recorder as enumerated completely.
func (r *Recorder) SetExhaustive() {
	r.mu.Lock()
	r.exhaustive = true
	r.mu.Unlock()
}

// AddEvals adds cases that were evaluated in bulk (exhaustive sweeps); nontrivial/distinct counts
// for those are given as counts of distinct keys.
func (r *Recorder) AddBulk(evals int, distinctNontrivialKeys []uint64) {
	r.mu.Lock()
	r.evals += evals
	for _, k := range distinctNontrivialKeys {
		r.nontrivial[k] = struct{}{}
	}
	r.mu.Unlock()
}

// AddSample appends a sample unconditionally (bounded).
func (r *Recorder) AddSample(s any) {
	r.mu.Lock()
	if len(r.samples) < 8 {
		r.samples = append(r.samples, s)
	}
	r.mu.Unlock()
}

type fragment struct {
	Prop       string         `json:"property_id"`
	Sub        string         `json:"sub"`
	Rule       string         `json:"rule"`
	Evals      int            `json:"evaluations"`
	Nontrivial int            `json:"distinct_nontrivial"`
	Classes    map[string]int `json:"classes"`
	Samples    []any          `json:"samples"`
	KnownHits  map[string]int `json:"known_finding_hits"`
	Excluded   map[string]int `json:"excluded_by_construction"`
	Extra      map[string]any `json:"extra"`
	Exhaustive bool           `json:"exhaustive"`
	HashFile   string         `json:"hash_file"`
}

// Flush writes all recorders of this process to $VERIF_EVIDENCE_OUT (JSON list) plus one binary file of
// non-trivial case hashes per recorder, so the driver can count distinct cases across shards.
func Flush() {
	out := os.Getenv("VERIF_EVIDENCE_OUT")
	if out == "" {
		return
	}
	recMu.Lock()
	defer recMu.Unlock()
	var frags []fragment
	for i, r := range recorders {
		r.mu.Lock()
		if r.evals == 0 {
			r.mu.Unlock()

			continue
		}
		hf := out + "." + strconv.Itoa(i) + ".hashes"
		keys := make([]uint64, 0, len(r.nontrivial))
		for k := range r.nontrivial {
			keys = append(keys, k)
		}
		sort.Slice(keys, func(a, b int) bool { return keys[a] < keys[b] })
		buf := make([]byte, 8*len(keys))
		for j, k := range keys {
			binary.LittleEndian.PutUint64(buf[8*j:], k)
		}
		_ = os.WriteFile(hf, buf, 0o644)
		frags = append(frags, fragment{
			Prop: r.Prop, Sub: r.Sub, Rule: r.Rule, Evals: r.evals, Nontrivial: len(r.nontrivial),
			Classes: r.classes, Samples: r.samples, KnownHits: r.knownHits, Excluded: r.excluded,
			Extra: r.extra, Exhaustive: r.exhaustive, HashFile: hf,
		})
		r.mu.Unlock()
	}
	b, err := json.MarshalIndent(frags, "", " ")
	if err != nil {
		fmt.Fprintf(os.Stderr, "VERIF-INFRA evidence marshal: %v\n", err)

		return
	}
	_ = os.WriteFile(out, b, 0o644)
}

// Main is the TestMain body of every property package.
func Main(m *testing.M) {
	code := m.Run()
	Flush()
	os.Exit(code)
}

// H is a small canonical-encoding hasher for case identity.
type H struct{ h uint64 }

// NewH returns a hasher.
func NewH() *H { return &H{h: 14695981039346656037} }

// U adds integers.
func (h *H) U(vs ...uint64) *H {
	for _, v := range vs {
		for i := 0; i < 8; i++ {
			h.h ^= uint64(byte(v >> (8 * i)))
			h.h *= 1099511628211
		}
	}

	return h
}

// I adds ints.
func (h *H) I(vs ...int) *H {
	for _, v := range vs {
		h.U(uint64(v)) //nolint:gosec
	}

	return h
}

// B adds bytes.
func (h *H) B(b []byte) *H {
	h.U(uint64(len(b)))
	for _, c := range b {
		h.h ^= uint64(c)
		h.h *= 1099511628211
	}

	return h
}

// S adds a string.
func (h *H) S(s string) *H { return h.B([]byte(s)) }

// Sum returns the hash.
func (h *H) Sum() uint64 { return h.h }

// HashAny hashes the %v rendering of a value (for small cases).
func HashAny(v any) uint64 {
	f := fnv.New64a()
	fmt.Fprintf(f, "%#v", v)

	return f.Sum64()
}

// Tier returns "quick" or "thorough".
func Tier() string {
	if os.Getenv("VERIF_TIER") == "thorough" {
		return "thorough"
	}

	return "quick"
}

// Seed returns VERIF_SEED remapped away from 0 (default 1).
func Seed() uint64 {
	s, err := strconv.ParseUint(os.Getenv("VERIF_SEED"), 10, 64)
	if err != nil || s == 0 {
		if os.Getenv("VERIF_SEED") == "0" {
			return 0x9E3779B97F4A7C15
		}

		return 1
	}

	return s
}

// Shard returns (index, count) of this process within a sharded run.
func Shard() (int, int) {
	i, _ := strconv.Atoi(os.Getenv("VERIF_SHARD"))
	n, _ := strconv.Atoi(os.Getenv("VERIF_NSHARDS"))
	if n <= 0 {
		n = 1
	}

	return i, n
}

// EnvInt reads an integer parameter passed by the driver.
func EnvInt(name string, def int) int {
	v, err := strconv.Atoi(os.Getenv(name))
	if err != nil {
		return def
	}

	return v
}
