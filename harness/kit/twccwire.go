package kit

import (
	"encoding/binary"
	"fmt"
)

// TWCCWire is the result of decoding a transport-wide congestion control feedback packet from its bytes,
// written from draft-holmer-rmcat-transport-wide-cc-extensions-01 without using pion/rtcp.
type TWCCWire struct {
	SenderSSRC, MediaSSRC uint32
	Base                  uint16
	Count                 uint16
	RefTime               uint32 // 24 bit, multiples of 64 ms
	FbPktCount            uint8
	Symbols               []uint8 // all symbols of all chunks (>= Count); 0 not received, 1 small, 2 large, 3 reserved
	DeltasUS              []int64 // one per received symbol among the first Count
	LengthWords           int     // header length field
	Padding               bool
}

// DecodeTWCC parses one RTCP transport-cc feedback packet.
func DecodeTWCC(b []byte) (*TWCCWire, error) {
	if len(b) < 20 {
		return nil, fmt.Errorf("short packet: %d bytes", len(b))
	}
	if b[0]>>6 != 2 || b[0]&0x1f != 15 || b[1] != 205 {
		return nil, fmt.Errorf("not a transport-cc feedback: % x", b[:2])
	}
	w := &TWCCWire{Padding: b[0]&0x20 != 0, LengthWords: int(binary.BigEndian.Uint16(b[2:]))}
	if 4*(w.LengthWords+1) != len(b) {
		return nil, fmt.Errorf("length field says %d bytes, packet has %d", 4*(w.LengthWords+1), len(b))
	}
	w.SenderSSRC = binary.BigEndian.Uint32(b[4:])
	w.MediaSSRC = binary.BigEndian.Uint32(b[8:])
	w.Base = binary.BigEndian.Uint16(b[12:])
	w.Count = binary.BigEndian.Uint16(b[14:])
	w.RefTime = uint32(b[16])<<16 | uint32(b[17])<<8 | uint32(b[18])
	w.FbPktCount = b[19]
	end := len(b)
	if w.Padding {
		p := int(b[len(b)-1])
		if p == 0 || p > len(b)-20 {
			return nil, fmt.Errorf("bad padding count %d", p)
		}
		end -= p
	}
	off := 20
	for len(w.Symbols) < int(w.Count) {
		if off+2 > end {
			return nil, fmt.Errorf("chunks end before %d statuses are described (have %d)", w.Count, len(w.Symbols))
		}
		c := binary.BigEndian.Uint16(b[off:])
		off += 2
		switch {
		case c&0x8000 == 0: // run length
			sym := uint8(c >> 13 & 3)
			for i := 0; i < int(c&0x1fff); i++ {
				w.Symbols = append(w.Symbols, sym)
			}
			if c&0x1fff == 0 {
				return nil, fmt.Errorf("run-length chunk with run length 0")
			}
		case c&0x4000 == 0: // 14 one-bit symbols
			for i := 13; i >= 0; i-- {
				w.Symbols = append(w.Symbols, uint8(c>>uint(i)&1))
			}
		default: // 7 two-bit symbols
			for i := 6; i >= 0; i-- {
				w.Symbols = append(w.Symbols, uint8(c>>uint(2*i)&3))
			}
		}
	}
	for i := 0; i < int(w.Count); i++ {
		switch w.Symbols[i] {
		case 1:
			if off+1 > end {
				return nil, fmt.Errorf("deltas end early at status %d", i)
			}
			w.DeltasUS = append(w.DeltasUS, int64(b[off])*250)
			off++
		case 2:
			if off+2 > end {
				return nil, fmt.Errorf("deltas end early at status %d", i)
			}
			w.DeltasUS = append(w.DeltasUS, int64(int16(binary.BigEndian.Uint16(b[off:])))*250)
			off += 2
		case 3:
			return nil, fmt.Errorf("reserved symbol 3 at status %d", i)
		}
	}
	if off != end {
		// bytes between the last delta and the padding/end: only zero padding up to a word boundary is allowed
		if end-off >= 4 && !w.Padding {
			return nil, fmt.Errorf("%d unexplained bytes after the deltas", end-off)
		}
	}

	return w, nil
}
