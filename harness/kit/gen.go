package kit

import (
	"github.com/pion/rtp"
	"pgregory.net/rapid"
)

// U16Boundary draws a uint16 with bias towards wrap and half-range boundaries.
func U16Boundary() *rapid.Generator[uint16] {
	return rapid.OneOf(
		rapid.SampledFrom([]uint16{0, 1, 2, 32766, 32767, 32768, 32769, 65533, 65534, 65535}),
		rapid.Uint16(),
		rapid.Uint16Range(65200, 65535),
	)
}

// U32Boundary draws a uint32 with bias towards 0 and the 2^32 wrap.
func U32Boundary() *rapid.Generator[uint32] {
	return rapid.OneOf(
		rapid.SampledFrom([]uint32{0, 1, 1 << 31, 1<<31 - 1, 1<<32 - 1, 1<<32 - 2}),
		rapid.Uint32(),
		rapid.Uint32Range(1<<32-200000, 1<<32-1),
	)
}

// PayloadLen draws a payload length 0..max biased to the edges.
func PayloadLen(max int) *rapid.Generator[int] {
	edges := []int{0, 1, 2}
	for _, e := range []int{max - 2, max - 1, max} {
		if e > 2 {
			edges = append(edges, e)
		}
	}

	return rapid.OneOf(rapid.SampledFrom(edges), rapid.IntRange(0, max), rapid.IntRange(0, min(max, 64)))
}

// Payload draws payload bytes of a generated length. The content is derived from a drawn 64-bit value
// so that large payloads stay cheap to generate and shrink.
func Payload(t *rapid.T, label string, max int) []byte {
	n := PayloadLen(max).Draw(t, label+".len")
	fill := rapid.Uint64().Draw(t, label+".fill")

	return FillBytes(n, fill)
}

// FillBytes returns n pseudo-random bytes determined by fill (xorshift; no zero runs).
func FillBytes(n int, fill uint64) []byte {
	b := make([]byte, n)
	x := fill | 1
	for i := range b {
		x ^= x << 13
		x ^= x >> 7
		x ^= x << 17
		b[i] = byte(x >> 24)
	}

	return b
}

// HeaderShape controls which optional header parts GenHeader may produce.
type HeaderShape struct {
	NoPadding    bool // never set the padding bit
	NoExtensions bool
	NoCSRC       bool
}

// GenHeader draws a version-2 RTP header of any shape that rtp.Header.Marshal accepts: marker, any PT,
// CSRC 0..15, no extension / one-byte / two-byte profile with 0..3 elements, padding in the current
// pion/rtp form (Padding=true, PaddingSize>=1). SSRC, sequence number and timestamp are left to the caller.
func GenHeader(t *rapid.T, label string, shape HeaderShape) rtp.Header {
	h := rtp.Header{Version: 2}
	h.Marker = rapid.Bool().Draw(t, label+".marker")
	h.PayloadType = rapid.Uint8Range(0, 127).Draw(t, label+".pt")
	if !shape.NoCSRC {
		nc := rapid.OneOf(rapid.Just(0), rapid.Just(0), rapid.IntRange(0, 15), rapid.Just(15)).Draw(t, label+".cc")
		for i := 0; i < nc; i++ {
			h.CSRC = append(h.CSRC, rapid.Uint32().Draw(t, label+".csrc"))
		}
	}
	if !shape.NoExtensions {
		switch rapid.IntRange(0, 3).Draw(t, label+".extkind") {
		case 1: // one-byte profile
			n := rapid.IntRange(0, 3).Draw(t, label+".extn")
			ids := rapid.Permutation([]uint8{1, 2, 3, 4, 5, 6, 7, 8, 9, 10, 11, 12, 13, 14}).Draw(t, label+".extids")
			for i := 0; i < n; i++ {
				l := rapid.IntRange(1, 16).Draw(t, label+".extlen")
				_ = h.SetExtension(ids[i], FillBytes(l, uint64(ids[i])*977+uint64(l)))
			}
			if n == 0 {
				h.Extension = true
				h.ExtensionProfile = rtp.ExtensionProfileOneByte
			}
		case 2: // two-byte profile
			n := rapid.IntRange(0, 3).Draw(t, label+".extn")
			h.Extension = true
			h.ExtensionProfile = rtp.ExtensionProfileTwoByte
			ids := rapid.Permutation([]uint8{1, 2, 3, 4, 5, 6, 7, 8, 9, 10, 11, 12, 13, 14, 15, 16, 200, 255}).Draw(t, label+".extids")
			for i := 0; i < n; i++ {
				l := rapid.IntRange(0, 40).Draw(t, label+".extlen")
				_ = h.SetExtension(ids[i], FillBytes(l, uint64(ids[i])*131+uint64(l)))
			}
		}
	}
	if !shape.NoPadding && rapid.IntRange(0, 4).Draw(t, label+".pad") == 0 {
		h.Padding = true
		h.PaddingSize = rapid.OneOf(rapid.Just(byte(1)), rapid.ByteRange(1, 255), rapid.Just(byte(255))).Draw(t, label+".padsize")
	}

	return h
}

// CloneHeader deep-copies a header (CSRC and extension payloads).
func CloneHeader(h *rtp.Header) rtp.Header { return h.Clone() }

// HeaderEqual compares all wire-visible header fields.
func HeaderEqual(a, b *rtp.Header) bool {
	if a.Version != b.Version || a.Padding != b.Padding || a.Marker != b.Marker ||
		a.PayloadType != b.PayloadType || a.SequenceNumber != b.SequenceNumber || a.Timestamp != b.Timestamp ||
		a.SSRC != b.SSRC || len(a.CSRC) != len(b.CSRC) || a.PaddingSize != b.PaddingSize {
		return false
	}
	for i := range a.CSRC {
		if a.CSRC[i] != b.CSRC[i] {
			return false
		}
	}

	return ExtensionsEqual(a, b)
}

// ExtensionsEqual compares extension flag, profile and every element.
func ExtensionsEqual(a, b *rtp.Header) bool {
	if a.Extension != b.Extension {
		return false
	}
	if !a.Extension {
		return true
	}
	if a.ExtensionProfile != b.ExtensionProfile {
		return false
	}
	ia, ib := a.GetExtensionIDs(), b.GetExtensionIDs()
	if len(ia) != len(ib) {
		return false
	}
	for i := range ia {
		if ia[i] != ib[i] || string(a.GetExtension(ia[i])) != string(b.GetExtension(ib[i])) {
			return false
		}
	}

	return true
}
