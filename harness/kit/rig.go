package kit

import (
	"fmt"
	"time"

	"github.com/pion/interceptor"
)

// Rig is one interceptor (or a chain of them) wired to transport spies.
type Rig struct {
	Members  []Member
	Ics      []interceptor.Interceptor
	Chain    interceptor.Interceptor
	RTCPSink *RTCPSink
	RTCPSrc  *ByteSource
	RTCPIn   interceptor.RTCPReader
	RTCPOut  interceptor.RTCPWriter
	Async    bool
	Buffered bool
}

// NewRig builds the named members (in list order: first = innermost) into one chain with short intervals.
func NewRig(names []string, interval time.Duration) (*Rig, error) {
	r := &Rig{RTCPSink: &RTCPSink{}, RTCPSrc: &ByteSource{}}
	for _, n := range names {
		m := NewMember(n, interval)
		ic, err := m.Factory.NewInterceptor("rig")
		if err != nil {
			return nil, fmt.Errorf("NewInterceptor(%s): %w", n, err)
		}
		r.Members = append(r.Members, m)
		r.Ics = append(r.Ics, ic)
		r.Async = r.Async || m.Async
		r.Buffered = r.Buffered || m.Buffering
	}
	r.Chain = interceptor.NewChain(r.Ics)

	return r, nil
}

// BindRTCP binds the RTCP writer and reader.
func (r *Rig) BindRTCP() {
	r.RTCPOut = r.Chain.BindRTCPWriter(r.RTCPSink)
	r.RTCPIn = r.Chain.BindRTCPReader(r.RTCPSrc)
}

// MembersFor expands "chain" into the synchronous members, otherwise returns the single name.
func MembersFor(member string) []string {
	if member != "chain" && member != "chain-reversed" {
		return []string{member}
	}
	var out []string
	for _, n := range AllNames {
		if n == "pacing" || n == "cc-leaky-bucket" || n == "cc-user-pacer" || n == "jitterbuffer" {
			continue
		}
		out = append(out, n)
	}
	if member == "chain-reversed" {
		// the other nesting: what was written through last is written through first (a responder's retransmissions pass the
		// header-extension and report members instead of the generators)
		for i, j := 0, len(out)-1; i < j; i, j = i+1, j-1 {
			out[i], out[j] = out[j], out[i]
		}
	}

	return out
}
