package kit

import (
	"bytes"
	"runtime"
	"strconv"
)

// GoID returns the current goroutine's id (parsed from the stack header). Used only to tell whether an
// injected clock function is being called synchronously from the harness goroutine or from a goroutine of
// the code under test.
func GoID() int64 {
	var buf [64]byte
	n := runtime.Stack(buf[:], false)
	f := bytes.Fields(buf[:n])
	if len(f) < 2 {
		return -1
	}
	id, err := strconv.ParseInt(string(f[1]), 10, 64)
	if err != nil {
		return -1
	}

	return id
}
