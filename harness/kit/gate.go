package kit

import (
	"errors"
	"sync"
	"time"
)

// GateClock is an injectable now() that turns the ticks of a free-running ticker loop into harness-controlled
// events. Calls made on the harness goroutine return the model time immediately. Any other goroutine (the
// interceptor's ticker loop, which asks for the time first thing on every tick) is parked until the harness
// releases it with the instant the tick shall have. While the loop is parked the harness feeds packets, so
// report boundaries fall at exactly known points of the history.
type GateClock struct {
	mu      sync.Mutex
	harness int64
	model   time.Time
	arrive  chan struct{}
	release chan time.Time
	open    chan struct{}
	parked  bool
	opened  bool
}

// ErrGateTimeout is returned when the loop does not reach the gate in time.
var ErrGateTimeout = errors.New("ticker loop did not ask for the time within the watchdog deadline")

// NewGateClock creates a gate owned by the calling goroutine.
func NewGateClock(start time.Time) *GateClock {
	return &GateClock{harness: GoID(), model: start, arrive: make(chan struct{}), release: make(chan time.Time), open: make(chan struct{})}
}

// Set sets the model time returned to harness-side calls.
func (g *GateClock) Set(t time.Time) {
	g.mu.Lock()
	g.model = t
	g.mu.Unlock()
}

// Get returns the model time.
func (g *GateClock) Get() time.Time {
	g.mu.Lock()
	defer g.mu.Unlock()

	return g.model
}

// Now is the function handed to the interceptor.
func (g *GateClock) Now() time.Time {
	if GoID() == g.harness {
		return g.Get()
	}
	select {
	case g.arrive <- struct{}{}:
	case <-g.open:
		return g.Get()
	}
	select {
	case t := <-g.release:
		return t
	case <-g.open:
		return g.Get()
	}
}

func (g *GateClock) waitParked() error {
	if g.parked {
		return nil
	}
	tm := time.NewTimer(DefaultDeadline)
	defer tm.Stop()
	select {
	case <-g.arrive:
		g.parked = true

		return nil
	case <-tm.C:
		return ErrGateTimeout
	}
}

// Tick lets exactly one tick of the loop run with instant t and returns once the loop is parked again
// at its next tick, i.e. after everything the tick wrote has been written.
func (g *GateClock) Tick(t time.Time) error {
	if err := g.waitParked(); err != nil {
		return err
	}
	g.release <- t
	g.parked = false

	return g.waitParked()
}

// Open releases the gate permanently (teardown) so that Close can join the loop.
func (g *GateClock) Open() {
	if !g.opened {
		g.opened = true
		close(g.open)
	}
}
