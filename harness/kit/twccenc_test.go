package kit

import (
	"testing"

	"github.com/pion/rtcp"
	"pgregory.net/rapid"
)

// The symbolic encoder must produce packets that pion/rtcp and the independent decoder both accept and that
// decode back to the ground truth.
func TestEncodeTWCCRoundTrip(t *testing.T) {
	rapid.Check(t, func(t *rapid.T) {
		spec := TWCCSpec{Base: rapid.Uint16().Draw(t, "base"), RefTime: rapid.Uint32Range(0, 1<<24-1).Draw(t, "ref")}
		for i, n := 0, rapid.IntRange(1, 80).Draw(t, "n"); i < n; i++ {
			st := TWCCStatus{Received: rapid.IntRange(0, 2).Draw(t, "rx") != 0}
			if st.Received {
				st.Delta250 = rapid.OneOf(rapid.Int64Range(0, 255), rapid.Int64Range(-32768, 32767)).Draw(t, "d")
			}
			spec.Statuses = append(spec.Statuses, st)
		}
		spec.Statuses[0] = TWCCStatus{Received: true, Delta250: 1}
		fb := EncodeTWCC(t, spec, 0)
		raw, err := fb.Marshal()
		if err != nil {
			t.Fatalf("marshal: %v (%+v)", err, fb)
		}
		var back rtcp.TransportLayerCC
		if err := back.Unmarshal(raw); err != nil {
			t.Fatalf("pion unmarshal: %v; % x", err, raw)
		}
		w, err := DecodeTWCC(raw)
		if err != nil {
			t.Fatalf("independent decode: %v", err)
		}
		di := 0
		for i, st := range spec.Statuses {
			if (w.Symbols[i] != 0) != st.Received {
				t.Fatalf("status %d", i)
			}
			if st.Received {
				if w.DeltasUS[di] != st.Delta250*250 {
					t.Fatalf("delta %d", i)
				}
				di++
			}
		}
	})
}
