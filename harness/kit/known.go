package kit

import (
	"encoding/json"
	"os"
	"sync"
)

// Finding is one entry of /verif/KNOWN_FINDINGS.json (committed; never written at run time).
type Finding struct {
	Property string `json:"property"`
	ID       string `json:"id"`
	Status   string `json:"status"` // "known" or "fixed"
	Commit   string `json:"commit,omitempty"`
	What     string `json:"what"`
	Line     string `json:"line"`
}

var (
	knownOnce sync.Once
	known     map[string]Finding
)

func loadKnown() {
	known = map[string]Finding{}
	path := os.Getenv("VERIF_KNOWN")
	if path == "" {
		path = "/verif/KNOWN_FINDINGS.json"
	}
	b, err := os.ReadFile(path)
	if err != nil {
		return
	}
	var doc struct {
		Findings []Finding `json:"findings"`
	}
	if json.Unmarshal(b, &doc) != nil {
		return
	}
	for _, f := range doc.Findings {
		known[f.ID] = f
	}
}

// Known reports whether id is listed with status "known", i.e. whether its (narrow) exemption predicate
// is enabled. A "fixed" entry enables nothing.
func Known(id string) bool {
	knownOnce.Do(loadKnown)
	f, ok := known[id]

	return ok && f.Status == "known"
}
