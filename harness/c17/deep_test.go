package c17

import (
	"fmt"
	"testing"
	"time"

	"github.com/pion/interceptor"
	"github.com/pion/interceptor/pkg/pacing"
	"github.com/pion/interceptor/verifharness/kit"
	"github.com/pion/rtp"
	"pgregory.net/rapid"
)

// TestPacingDeepBacklog: one writer, 1100..3000 small packets in two bursts (the second one while the first is draining), so that well over a
// thousand packets wait inside the pacer at once: every packet is delivered once, in order, intact.
func TestPacingDeepBacklog(t *testing.T) {
	rec := kit.NewRecorder("C17", "pacing-deep-backlog",
		"pacing.Interceptor at 50 Mbit/s..1 Gbit/s, interval 1..5 ms, one stream, a first burst of 200..900 packets, a second burst of 900..2100 once 1..300 of the first have been released; "+
			"order / once / intact at the next writer; non-trivial = more than 1024 packets queued at once; distinct by parameters")
	rapid.Check(t, func(t *rapid.T) {
		rate := rapid.SampledFrom([]int{50_000_000, 200_000_000, 1_000_000_000}).Draw(t, "rate")
		interval := time.Duration(rapid.IntRange(1, 5).Draw(t, "intervalMS")) * time.Millisecond
		first := rapid.IntRange(200, 900).Draw(t, "first")
		releasedBefore := rapid.IntRange(1, 300).Draw(t, "releasedBeforeSecond")
		second := rapid.IntRange(900, 2100).Draw(t, "second")
		size := rapid.SampledFrom([]int{0, 20, 100, 300}).Draw(t, "payload")
		f := pacing.NewInterceptor(pacing.InitialRate(rate), pacing.Interval(interval))
		ic, err := f.NewInterceptor("deep")
		if err != nil {
			t.Fatalf("NewInterceptor: %v", err)
		}
		defer kit.BoundedClose(ic.Close)
		sink := &kit.RTPSink{}
		w := ic.BindLocalStream(&interceptor.StreamInfo{SSRC: 50}, sink)
		write := func(i int) {
			hdr := rtp.Header{Version: 2, SSRC: 50, SequenceNumber: uint16(i), Timestamp: uint32(i)} //nolint:gosec
			payload := kit.FillBytes(size, uint64(i)+1)                                                  //nolint:gosec
			if _, err := w.Write(&hdr, payload, nil); err != nil {
				t.Fatalf("Write of packet %d: %v", i, err)
			}
		}
		for i := 0; i < first; i++ {
			write(i)
		}
		if !kit.Eventually(10*time.Second, func() bool { return sink.Len() >= min(releasedBefore, first) }) {
			t.Skipf("inconclusive: %d of the first burst released within 10 s", sink.Len())
		}
		queuedAtOnce := first - sink.Len() + second
		for i := first; i < first+second; i++ {
			write(i)
		}
		total := first + second
		if !kit.Eventually(30*time.Second, func() bool { return sink.Len() >= total }) {
			t.Fatalf("%d of %d accepted packets delivered within 30 s (rate %d, interval %v, %d-byte payloads)", sink.Len(), total, rate, interval, size)
		}
		time.Sleep(2 * interval)
		calls := sink.Calls()
		if len(calls) != total {
			t.Fatalf("%d packets delivered, %d accepted", len(calls), total)
		}
		for i, c := range calls {
			if int(c.Header.Timestamp) != i {
				t.Fatalf("delivery %d is packet %d: not in acceptance order (previous delivery was packet %d; %d packets were queued at once)", i, c.Header.Timestamp, func() uint32 {
					if i == 0 {
						return 0
					}

					return calls[i-1].Header.Timestamp
				}(), queuedAtOnce)
			}
			if want := kit.FillBytes(size, uint64(i)+1); string(c.Payload) != string(want) || c.Header.SequenceNumber != uint16(i) { //nolint:gosec
				t.Fatalf("packet %d was altered on its way through the pacer", i)
			}
		}
		rec.Case(kit.NewH().I(rate, int(interval), first, releasedBefore, second, size).Sum(), queuedAtOnce > 1024, []string{fmt.Sprintf("queued>1024=%v", queuedAtOnce > 1024)}, func() any {
			return map[string]any{"rate": rate, "interval_ms": interval.Milliseconds(), "first": first, "second": second, "queued_at_once": queuedAtOnce}
		})
	})
}

// TestPacingSecondIncarnation: an interceptor is created, given a rate and closed; a second one is created from the same factory under the same
// id and given the same rate again. From that moment the second one is bound by that rate's envelope like any other.
func TestPacingSecondIncarnation(t *testing.T) {
	rec := kit.NewRecorder("C17", "pacing-second-incarnation",
		"one factory, id reused after Close, the same SetRate value for both incarnations (below the initial rate); released bits from the SetRate on <= 2 x burst + rate x elapsed (+1 packet); "+
			"non-trivial = always; distinct by parameters")
	rapid.Check(t, func(t *rapid.T) {
		initial := rapid.SampledFrom([]int{8_000_000, 50_000_000}).Draw(t, "initial")
		rate := rapid.SampledFrom([]int{200_000, 1_000_000, 2_000_000}).Draw(t, "rate")
		interval := time.Duration(rapid.IntRange(1, 5).Draw(t, "intervalMS")) * time.Millisecond
		id := rapid.SampledFrom([]string{"", "pc"}).Draw(t, "id")
		f := pacing.NewInterceptor(pacing.InitialRate(initial), pacing.Interval(interval))
		first, err := f.NewInterceptor(id)
		if err != nil {
			t.Fatalf("NewInterceptor: %v", err)
		}
		f.SetRate(id, rate)
		if o := kit.Guard(0, func() { _ = first.Close() }); !o.OK() {
			t.Fatalf("Close of the first incarnation: %s", o)
		}
		ic, err := f.NewInterceptor(id)
		if err != nil {
			t.Fatalf("NewInterceptor (second incarnation): %v", err)
		}
		defer kit.BoundedClose(ic.Close)
		sink := &kit.RTPSink{}
		w := ic.BindLocalStream(&interceptor.StreamInfo{SSRC: 50}, sink)
		f.SetRate(id, rate)
		time.Sleep(2 * interval) // a tick or two with the new rate and burst in force
		b := burstOf(rate, interval)
		n := (2*b+20*9696)/9696 + 2
		start := time.Now()
		for i := 0; i < n; i++ {
			hdr := rtp.Header{Version: 2, SSRC: 50, SequenceNumber: uint16(i)} //nolint:gosec
			if _, err := w.Write(&hdr, make([]byte, 1200), nil); err != nil {
				t.Fatalf("Write: %v", err)
			}
		}
		wait := time.Duration(float64(n*9696)/float64(rate)*3*float64(time.Second)) + 200*interval + time.Second
		if !kit.Eventually(wait, func() bool { return sink.Len() >= n }) {
			t.Skipf("inconclusive: %d of %d delivered within %v", sink.Len(), n, wait)
		}
		released := 0
		for _, c := range sink.Calls() {
			released += 8 * (c.Header.MarshalSize() + len(c.Payload))
			el := c.At.Sub(start).Seconds()
			if allowed := 2*float64(b) + float64(rate)*el + 9696; float64(released) > allowed {
				t.Fatalf("second incarnation under id %q, SetRate(%d) given again (initial rate %d, interval %v): %d bits released %.6f s after the first write, 2 x burst %d + rate x elapsed (+1 packet) = %.0f",
					id, rate, initial, interval, released, el, b, allowed)
			}
		}
		rec.Case(kit.NewH().I(initial, rate, int(interval)).S(id).Sum(), true, nil, func() any {
			return map[string]any{"initial": initial, "rate": rate, "interval_ms": interval.Milliseconds(), "id": id, "packets": n}
		})
	})
}

// TestPacingRateSpikes: while a backlog drains at a low rate, the application raises the rate for an instant and lowers it again, several times
// (an estimator that overshoots and corrects itself). The envelope is the piecewise one: largest bucket so far (twice, for a stale tick) plus the
// integral of the rate in force, where each spike contributes the high rate for the time between the stamps taken around its two SetRate calls.
// A pacer that hands out a fresh bucket at a rate change releases one high-rate bucket per spike and leaves the envelope after a few of them.
func TestPacingRateSpikes(t *testing.T) {
	rec := kit.NewRecorder("C17", "pacing-rate-spikes",
		"pacing.Interceptor draining a backlog at 300 kbit/s..2 Mbit/s, interval 2..5 ms, 20..40 momentary raises to a rate whose bucket is 3 or 5 times larger (SetRate up, SetRate down at once or 200 us later); "+
			"released bits at every delivery <= 2 x largest burst + integral of the rate in force (+1 packet); non-trivial = always; distinct by parameters")
	rapid.Check(t, func(t *rapid.T) {
		low := rapid.SampledFrom([]int{300_000, 1_000_000, 2_000_000}).Draw(t, "low")
		interval := time.Duration(rapid.IntRange(2, 5).Draw(t, "intervalMS")) * time.Millisecond
		factor := rapid.SampledFrom([]int{3, 5}).Draw(t, "bucketFactor")
		spikes := rapid.IntRange(20, 40).Draw(t, "spikes")
		bLow := burstOf(low, interval)
		high := int(float64(factor*bLow) / interval.Seconds())
		bHigh := burstOf(high, interval)
		// enough backlog for everything a pacer could wrongly hand out: a bucket of either size per spike on top of the envelope
		n := (2*spikes*bLow+2*bHigh+int(float64(low)*float64(spikes)*2.5*interval.Seconds()))/9696 + 5
		if drain := float64(n*9696) / float64(low); drain > 2.5 {
			n = int(2.5*float64(low)) / 9696
		}
		f := pacing.NewInterceptor(pacing.InitialRate(low), pacing.Interval(interval))
		ic, err := f.NewInterceptor("pc")
		if err != nil {
			t.Fatalf("NewInterceptor: %v", err)
		}
		defer kit.BoundedClose(ic.Close)
		sink := &kit.RTPSink{}
		w := ic.BindLocalStream(&interceptor.StreamInfo{SSRC: 50}, sink)
		time.Sleep(2 * interval)
		start := time.Now()
		for i := 0; i < n; i++ {
			hdr := rtp.Header{Version: 2, SSRC: 50, SequenceNumber: uint16(i)} //nolint:gosec
			if _, err := w.Write(&hdr, make([]byte, 1200), nil); err != nil {
				t.Fatalf("Write: %v", err)
			}
		}
		dwell := time.Duration(rapid.SampledFrom([]int{0, 0, 200}).Draw(t, "dwellUs")) * time.Microsecond
		type window struct{ from, to time.Time }
		var wins []window
		for k := 0; k < spikes; k++ {
			time.Sleep(interval + time.Duration(rapid.IntRange(0, 1500).Draw(t, "pauseUs"))*time.Microsecond)
			from := time.Now()
			f.SetRate("pc", high)
			if dwell > 0 {
				time.Sleep(dwell)
			}
			f.SetRate("pc", low)
			wins = append(wins, window{from, time.Now()})
		}
		wait := time.Duration(float64(n*9696)/float64(low)*3*float64(time.Second)) + 200*interval + time.Second
		if !kit.Eventually(wait, func() bool { return sink.Len() >= n }) {
			t.Skipf("inconclusive: %d of %d delivered within %v", sink.Len(), n, wait)
		}
		released := 0
		for _, c := range sink.Calls() {
			released += 8 * (c.Header.MarshalSize() + len(c.Payload))
			allowed := 2*float64(bHigh) + float64(low)*c.At.Sub(start).Seconds() + 9696
			seen := 0
			for _, wn := range wins {
				if c.At.After(wn.from) {
					seen++
					end := wn.to
					if c.At.Before(end) {
						end = c.At
					}
					allowed += float64(high-low) * end.Sub(wn.from).Seconds()
				}
			}
			if float64(released) > allowed {
				t.Fatalf("backlog of %d packets at %d bit/s (interval %v), %d momentary raises to %d bit/s so far: %d bits released %.6f s after the first write; "+
					"2 x largest burst %d + integral of the rate in force (+1 packet) = %.0f", n, low, interval, seen, high, released, c.At.Sub(start).Seconds(), bHigh, allowed)
			}
		}
		rec.Case(kit.NewH().I(low, int(interval), factor, spikes).Sum(), true, nil, func() any {
			return map[string]any{"low": low, "high": high, "interval_ms": interval.Milliseconds(), "spikes": spikes, "packets": n}
		})
	})
}
