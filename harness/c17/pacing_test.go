package c17

import (
	"bytes"
	"fmt"
	"runtime"
	"sync"
	"testing"
	"time"

	"github.com/pion/interceptor"
	"github.com/pion/interceptor/pkg/gcc"
	"github.com/pion/interceptor/pkg/pacing"
	"github.com/pion/interceptor/verifharness/kit"
	"github.com/pion/rtp"
	"pgregory.net/rapid"
)

// planned packet of one writer goroutine
type planned struct {
	stream  int
	hdr     rtp.Header
	payload []byte
}

func (p *planned) bits() int { return 8 * (p.hdr.MarshalSize() + len(p.payload)) }

type accepted struct {
	writer, order int
	p             *planned
}

// delivered packets carry (writer, order) in the first payload bytes / timestamp so they can be matched
func tag(p *planned, writer, order int) {
	p.hdr.Timestamp = uint32(writer)<<24 | uint32(order) //nolint:gosec
}

var excludedOversize func()

func genPlan(t *rapid.T, nStreams, n int, maxBits int) []*planned {
	out := make([]*planned, n)
	for i := range out {
		s := rapid.IntRange(0, nStreams-1).Draw(t, "stream")
		h := kit.GenHeader(t, "h", kit.HeaderShape{})
		h.SSRC = uint32(50 + s)      //nolint:gosec
		h.SequenceNumber = uint16(i) //nolint:gosec
		p := &planned{stream: s, hdr: h, payload: kit.Payload(t, "p", 1460)}
		if p.bits() >= maxBits && excludedOversize != nil {
			excludedOversize() // excluded by construction: listed known finding C17-oversize-head-of-line
		}
		for p.bits() >= maxBits && (len(p.payload) > 0 || len(p.hdr.CSRC) > 0) {
			if len(p.payload) > 0 {
				p.payload = p.payload[:len(p.payload)/2]
			} else {
				p.hdr.CSRC = nil
			}
		}
		out[i] = p
	}

	return out
}

// checkDelivery: per writer goroutine the delivered packets are, per stream, an order-preserving, duplicate-free
// prefix-closed image of what that goroutine had accepted; contents as accepted.
func checkDelivery(sinks []*kit.RTPSink, plans [][]*planned, acceptedOK [][]bool, complete bool) error {
	for si, sink := range sinks {
		next := make([]int, len(plans)) // per writer: index in its plan to look from
		for _, c := range sink.Calls() {
			w, order := int(c.Header.Timestamp>>24), int(c.Header.Timestamp&0xffffff)
			if w >= len(plans) || order >= len(plans[w]) {
				return fmt.Errorf("stream %d: delivered a packet that no writer sent (tag %d/%d)", si, w, order)
			}
			p := plans[w][order]
			if p.stream != si {
				return fmt.Errorf("packet %d of writer %d was accepted on stream %d but delivered to stream %d's writer", order, w, p.stream, si)
			}
			if !acceptedOK[w][order] {
				return fmt.Errorf("packet %d of writer %d was refused by Write but delivered", order, w)
			}
			if order < next[w] {
				return fmt.Errorf("stream %d: packet %d of writer %d delivered after packet %d of the same writer (duplicate or reordering)", si, order, w, next[w]-1)
			}
			// everything of this writer on this stream between next[w] and order must not have been accepted (prefix-closed)
			for k := next[w]; k < order; k++ {
				if plans[w][k].stream == si && acceptedOK[w][k] {
					return fmt.Errorf("stream %d: packet %d of writer %d delivered before the earlier accepted packet %d", si, order, w, k)
				}
			}
			next[w] = order + 1
			if !kit.HeaderEqual(&c.Header, &p.hdr) || !bytes.Equal(c.Payload, p.payload) {
				return fmt.Errorf("stream %d: packet %d of writer %d was altered: delivered header %+v payload %d bytes, accepted %+v payload %d bytes", si, order, w, c.Header, len(c.Payload), p.hdr, len(p.payload))
			}
		}
		if complete {
			for w := range plans {
				for k := next[w]; k < len(plans[w]); k++ {
					if plans[w][k].stream == si && acceptedOK[w][k] {
						return fmt.Errorf("stream %d: accepted packet %d of writer %d was never delivered", si, k, w)
					}
				}
			}
		}
	}

	return nil
}

func totalDelivered(sinks []*kit.RTPSink) int {
	n := 0
	for _, s := range sinks {
		n += s.Len()
	}

	return n
}

func burstOf(rate int, interval time.Duration) int {
	f := float64(time.Second.Milliseconds() / interval.Milliseconds())

	return max(8*1500, int(float64(rate)/f))
}

func TestPacingInterceptor(t *testing.T) {
	rec := kit.NewRecorder("C17", "pacing-interceptor",
		"pacing.Interceptor with rates 50 kbit/s..1 Gbit/s, interval 1..5 ms, a mid-stream SetRate, 1-3 streams, 1-4 concurrent writers, packets of any header shape and payload "+
			"0..1460; order/once/intact per writer and stream, and cumulative released bits <= burst + rate x elapsed at every delivery; "+
			"non-trivial = >= 2 streams or writers with >= 20 packets queued at once; distinct by configuration and plan")
	excludedOversize = func() { rec.Excluded("C17-oversize-head-of-line") }
	rapid.Check(t, func(t *rapid.T) {
		rate := rapid.SampledFrom([]int{50_000, 300_000, 1_000_000, 5_000_000, 50_000_000, 1_000_000_000}).Draw(t, "rate")
		interval := time.Duration(rapid.IntRange(1, 5).Draw(t, "intervalMS")) * time.Millisecond
		rate2 := rapid.SampledFrom([]int{0, 0, 100_000, 2_000_000, 100_000_000}).Draw(t, "setRate")
		// further changes back and forth between the two rates while a backlog waits (each SetRate call is a rate change event)
		flips := 0
		if rate2 > 0 {
			flips = rapid.OneOf(rapid.Just(0), rapid.IntRange(0, 6)).Draw(t, "rateFlips")
		}
		nStreams := rapid.IntRange(1, 3).Draw(t, "streams")
		nWriters := rapid.IntRange(1, 4).Draw(t, "writers")
		minBurst := burstOf(rate, interval)
		lowRate := rate
		if rate2 > 0 {
			minBurst = min(minBurst, burstOf(rate2, interval))
			lowRate = min(rate, rate2)
		}
		// keep the drain time around half a second: total bits <= rate * 0.5 s + burst
		budgetBits := lowRate/2 + minBurst
		plans := make([][]*planned, nWriters)
		acceptedOK := make([][]bool, nWriters)
		total := 0
		sumBits := 0
		for w := range plans {
			n := rapid.IntRange(1, 100).Draw(t, "packets")
			plans[w] = genPlan(t, nStreams, n, minBurst)
			for k, p := range plans[w] {
				tag(p, w, k)
				if sumBits+p.bits() > budgetBits && k > 0 {
					plans[w] = plans[w][:k]

					break
				}
				sumBits += p.bits()
			}
			acceptedOK[w] = make([]bool, len(plans[w]))
			total += len(plans[w])
		}
		tCreate := time.Now()
		f := pacing.NewInterceptor(pacing.InitialRate(rate), pacing.Interval(interval))
		ic, err := f.NewInterceptor("pc")
		if err != nil {
			t.Fatalf("NewInterceptor: %v", err)
		}
		sinks := make([]*kit.RTPSink, nStreams)
		writers := make([]interceptor.RTPWriter, nStreams)
		for i := range sinks {
			sinks[i] = genTransport(t, total)
			writers[i] = ic.BindLocalStream(&interceptor.StreamInfo{SSRC: uint32(50 + i)}, sinks[i]) //nolint:gosec
		}
		var wg sync.WaitGroup
		var setRateBefore, setRateAfter time.Time
		var mu sync.Mutex
		var writeErr error
		for w := range plans {
			wg.Add(1)
			go func(w int) {
				defer wg.Done()
				for k, p := range plans[w] {
					if w == 0 && rate2 > 0 && k == len(plans[w])/2 {
						mu.Lock()
						setRateBefore = time.Now()
						f.SetRate("pc", rate2)
						for fl := 0; fl < flips; fl++ { // the bound below uses max(rate, rate2) from here on
							time.Sleep(interval)
							if fl%2 == 0 {
								f.SetRate("pc", rate)
							} else {
								f.SetRate("pc", rate2)
							}
						}
						setRateAfter = time.Now()
						mu.Unlock()
					}
					hdr := p.hdr.Clone()
					pay := append([]byte(nil), p.payload...)
					_, err := writers[p.stream].Write(&hdr, pay, nil)
					scribble(&hdr, pay) // the caller owns these again: what was accepted must not change
					acceptedOK[w][k] = err == nil
					if err != nil {
						mu.Lock()
						writeErr = err
						mu.Unlock()
					}
				}
			}(w)
		}
		if o := kit.Guard(0, wg.Wait); !o.OK() {
			_ = ic.Close()
			t.Fatalf("writers blocked: %s", o)
		}
		if writeErr != nil {
			_ = ic.Close()
			t.Fatalf("Write on an open pacer with an almost empty queue failed: %v", writeErr)
		}
		queuedAtOnce := total - totalDelivered(sinks)
		// drain
		wait := time.Duration(float64(sumBits)/float64(lowRate)*3*float64(time.Second)) + 200*interval + time.Second
		drained := kit.Eventually(wait, func() bool { return totalDelivered(sinks) >= total })
		if err := checkDelivery(sinks, plans, acceptedOK, drained); err != nil {
			_ = ic.Close()
			t.Fatalf("%v (rate %d, interval %v, setRate %d)", err, rate, interval, rate2)
		}
		if err := checkUntampered(sinks); err != nil {
			_ = ic.Close()
			t.Fatalf("%v (rate %d, interval %v)", err, rate, interval)
		}
		// token bucket: at every delivery instant, released bits <= largest burst so far + integral of the rate (+1 packet of slack for timer skew)
		var all []kit.SentRTP
		for _, s := range sinks {
			all = append(all, s.Calls()...)
		}
		sortByTime(all)
		released := 0
		maxBurst := burstOf(rate, interval)
		for _, c := range all {
			released += 8 * (c.Header.MarshalSize() + len(c.Payload))
			el := c.At.Sub(tCreate).Seconds()
			allowed := float64(rate) * el
			if rate2 > 0 {
				mu.Lock()
				from := setRateBefore
				if rate2 < rate {
					from = setRateAfter
				}
				mu.Unlock()
				if !from.IsZero() && c.At.After(from) {
					after := float64(rate2)
					if flips > 0 {
						after = float64(max(rate, rate2)) // the rate flipped between the two for a while: bound by the larger one
						from = setRateBefore
					}
					allowed = float64(rate)*from.Sub(tCreate).Seconds() + after*c.At.Sub(from).Seconds()
					maxBurst = max(maxBurst, burstOf(rate2, interval))
				}
			}
			if float64(released) > float64(maxBurst)+allowed+1 {
				_ = ic.Close()
				t.Fatalf("token bucket exceeded: %d bits released %.6f s after creation, burst %d + rate x elapsed = %.0f (rate %d, setRate %d, interval %v)",
					released, el, maxBurst, float64(maxBurst)+allowed, rate, rate2, interval)
			}
		}
		if !drained {
			_ = ic.Close()
			t.Skipf("inconclusive: %d of %d packets delivered within %v", totalDelivered(sinks), total, wait)
		}
		// after the rate was lowered the bucket is the new rate's bucket: stay idle long enough for a stale larger one to fill up,
		// then write a batch back to back; from the first write of the batch on, released bits <= burst(rate2) + rate2 x elapsed
		idleBatch := false
		rate2orig := rate2
		finalRate := rate2 // the rate in force now: SetRate(rate2), then flips alternate rate, rate2, ...
		if flips%2 == 1 {
			finalRate = rate
		}
		if b1, b2 := max(burstOf(rate, interval), burstOf(max(rate2, 1), interval)), burstOf(max(finalRate, 1), interval); drained && rate2 > 0 && b1 > 2*b2+3*9696 {
			rate2 := finalRate
			want := min(b1, 2*b2+12*9696)
			idle := time.Duration(float64(want)/float64(rate2)*float64(time.Second)) + 5*interval
			if idle <= 500*time.Millisecond {
				idleBatch = true
				time.Sleep(idle)
				n := want/9696 + 2
				before := sinks[0].Len()
				start := time.Now()
				for i := 0; i < n; i++ {
					hdr := rtp.Header{Version: 2, SSRC: 50, SequenceNumber: uint16(i), Timestamp: 0xFFFFFFFF} //nolint:gosec
					if _, err := writers[0].Write(&hdr, make([]byte, 1200), nil); err != nil {
						_ = ic.Close()
						t.Fatalf("Write after the idle period: %v", err)
					}
				}
				wait := time.Duration(float64(n*9696)/float64(rate2)*3*float64(time.Second)) + 200*interval + time.Second
				if kit.Eventually(wait, func() bool { return sinks[0].Len() >= before+n }) {
					released := 0
					for _, c := range sinks[0].Calls()[before:] {
						released += 8 * (c.Header.MarshalSize() + len(c.Payload))
						el := c.At.Sub(start).Seconds()
						// one tick stamped before the batch can still be waiting in the ticker channel when the loop has been descheduled: it spends up to one
						// bucket, and the bucket can be full again at the first tick stamped after the start
						if allowed := 2*float64(b2) + float64(rate2)*el + 9696; float64(released) > allowed {
							_ = ic.Close()
							t.Fatalf("token bucket exceeded after the rate was lowered to %d (rates used before: %d, %d) and the pacer had been idle for %v: %d bits released %.6f s after the first write of a batch, "+
								"2 x burst %d + rate x elapsed (+1 packet) = %.0f (interval %v)", rate2, rate, rate2orig, idle, released, el, b2, allowed, interval)
						}
					}
				}
			}
		}
		if o := kit.Guard(0, func() { _ = ic.Close() }); !o.OK() {
			t.Fatalf("Close: %s", o)
		}
		_ = idleBatch
		h := kit.NewH().I(rate, int(interval), rate2, nStreams, nWriters, total, sumBits)
		rec.Case(h.Sum(), (nStreams >= 2 || nWriters >= 2) && queuedAtOnce >= 20, []string{fmt.Sprintf("rate=%d", rate), fmt.Sprintf("writers=%d", nWriters)}, func() any {
			return map[string]any{"rate": rate, "interval_ms": interval.Milliseconds(), "set_rate": rate2, "streams": nStreams, "writers": nWriters, "packets": total, "queued_when_writers_finished": queuedAtOnce}
		})
	})
}

// genTransport draws the behaviour of a stream's next writer: plain, failing at a few calls (the packet still counts as handed over:
// exactly once), or slow (yields / sleeps inside Write and then compares what it was given with the copy taken on entry).
func genTransport(t *rapid.T, total int) *kit.RTPSink {
	return genTransportLater(t)(total)
}

func genTransportLater(t *rapid.T) func(total int) *kit.RTPSink {
	kind := rapid.IntRange(0, 5).Draw(t, "transport")
	fails := rapid.SliceOfN(rapid.IntRange(0, 400), 1, 4).Draw(t, "failAt")
	yields := rapid.IntRange(1, 30).Draw(t, "holdYields")

	return func(total int) *kit.RTPSink {
		s := &kit.RTPSink{}
		switch kind {
		case 0:
			s.FailAt = map[int]error{}
			for _, f := range fails {
				s.FailAt[f%max(total, 1)] = errTransport
			}
		case 1:
			s.HoldYields = yields
		case 2:
			s.HoldSleep = 30 * time.Microsecond
		}

		return s
	}
}

var errTransport = fmt.Errorf("injected transport error")

func checkUntampered(sinks []*kit.RTPSink) error {
	for i, s := range sinks {
		if tm := s.Tampered(); len(tm) > 0 {
			return fmt.Errorf("stream %d: %s (%d such writes)", i, tm[0], len(tm))
		}
	}

	return nil
}

// scribble overwrites everything the caller handed in, in place.
func scribble(h *rtp.Header, payload []byte) {
	for i := range payload {
		payload[i] = 0xEE
	}
	for i := range h.CSRC {
		h.CSRC[i] = 0xDEADBEEF
	}
	for _, id := range h.GetExtensionIDs() {
		ext := h.GetExtension(id)
		for i := range ext {
			ext[i] = 0xEE
		}
	}
	h.Timestamp, h.SequenceNumber, h.Marker = 0xEEEEEEEE, 0xEEEE, !h.Marker
}

func sortByTime(a []kit.SentRTP) {
	for i := 1; i < len(a); i++ {
		for j := i; j > 0 && a[j].At.Before(a[j-1].At); j-- {
			a[j], a[j-1] = a[j-1], a[j]
		}
	}
}

type gccPacer interface {
	interceptor.RTPWriter
	AddStream(ssrc uint32, writer interceptor.RTPWriter)
	SetTargetBitrate(int)
	Close() error
}

func TestGCCPacers(t *testing.T) {
	rec := kit.NewRecorder("C17", "gcc-pacers",
		"gcc.LeakyBucketPacer and gcc.NoOpPacer: 1-3 streams, 1-4 concurrent writers, packets of any header shape and payload 0..1460, a mid-stream SetTargetBitrate; "+
			"every accepted packet delivered once, in order per writer and stream, intact; non-trivial = >= 2 streams or writers and >= 20 packets; distinct by configuration and plan")
	rapid.Check(t, func(t *rapid.T) {
		leaky := rapid.Bool().Draw(t, "leakyBucket")
		trickle := rapid.SampledFrom([]int{0, 1, 5, 20}).Draw(t, "trickleYields")
		rate := rapid.SampledFrom([]int{2_000_000, 20_000_000, 200_000_000}).Draw(t, "rate")
		nStreams := rapid.IntRange(1, 3).Draw(t, "streams")
		nWriters := rapid.IntRange(1, 4).Draw(t, "writers")
		var p gccPacer
		if leaky {
			p = gcc.NewLeakyBucketPacer(rate)
		} else {
			p = gcc.NewNoOpPacer()
		}
		sinks := make([]*kit.RTPSink, nStreams)
		sinkGens := make([]func(int) *kit.RTPSink, nStreams)
		for i := range sinkGens {
			sinkGens[i] = genTransportLater(t)
		}
		plans := make([][]*planned, nWriters)
		acceptedOK := make([][]bool, nWriters)
		total, sumBits := 0, 0
		for w := range plans {
			n := rapid.IntRange(1, 60).Draw(t, "packets")
			plans[w] = genPlan(t, nStreams, n, 1<<30)
			for k, pl := range plans[w] {
				tag(pl, w, k)
				sumBits += pl.bits()
				if sumBits > rate/4 && k > 0 {
					plans[w] = plans[w][:k]

					break
				}
			}
			acceptedOK[w] = make([]bool, len(plans[w]))
			total += len(plans[w])
		}
		for i := range sinks {
			sinks[i] = sinkGens[i](total)
			if !leaky {
				sinks[i].FailAt = nil // the pass-through pacer returns the transport's error from Write: that is not a refusal by the pacer
			}
			p.AddStream(uint32(50+i), sinks[i]) //nolint:gosec
		}
		// the estimator changes the pacer's rate from its own goroutine while packets are written and paced out: sharp drops and rises
		stopRates := make(chan struct{})
		var ratesWG sync.WaitGroup
		if rapid.Bool().Draw(t, "rateChanger") {
			ratesWG.Add(1)
			go func() {
				defer ratesWG.Done()
				for i := 0; ; i++ {
					select {
					case <-stopRates:
						return
					default:
					}
					if i%2 == 0 {
						p.SetTargetBitrate(rate * 8)
					} else {
						p.SetTargetBitrate(rate * 2)
					}
					runtime.Gosched()
				}
			}()
		}
		defer func() {
			select {
			case <-stopRates:
			default:
				close(stopRates)
			}
			_ = kit.Guard(5*time.Second, ratesWG.Wait) // a rate change that never returns has been reported by then
		}()
		var wg sync.WaitGroup
		for w := range plans {
			wg.Add(1)
			go func(w int) {
				defer wg.Done()
				for k, pl := range plans[w] {
					if w == 0 && k == len(plans[w])/2 {
						p.SetTargetBitrate(rate * 2)
					}
					hdr := pl.hdr.Clone()
					pay := append([]byte(nil), pl.payload...)
					_, err := p.Write(&hdr, pay, nil)
					scribble(&hdr, pay)
					acceptedOK[w][k] = err == nil
					if trickle > 0 { // keep writing while the pacer delivers: pooled buffers are taken while others are still with the transport
						for y := 0; y < trickle; y++ {
							runtime.Gosched()
						}
						if k%4 == 3 {
							time.Sleep(50 * time.Microsecond)
						}
					}
				}
			}(w)
		}
		if o := kit.Guard(0, wg.Wait); !o.OK() {
			kit.BoundedClose(p.Close)
			t.Fatalf("writers blocked: %s", o)
		}
		for w := range acceptedOK {
			for k, ok := range acceptedOK[w] {
				if !ok {
					kit.BoundedClose(p.Close)
					t.Fatalf("Write of packet %d of writer %d on an added stream failed", k, w)
				}
			}
		}
		wait := time.Duration(float64(sumBits)/float64(rate)*3*float64(time.Second)) + 2*time.Second
		drained := kit.Eventually(wait, func() bool { return totalDelivered(sinks) >= total })
		if !drained {
			// slow is inconclusive, stuck is not: a pacer that still answers a rate change is merely behind
			if o := kit.Guard(0, func() { p.SetTargetBitrate(rate * 2) }); !o.OK() {
				kit.BoundedClose(p.Close)
				t.Fatalf("%d of %d packets delivered after %v and SetTargetBitrate does not return: %s (leaky bucket %v, rate %d)", totalDelivered(sinks), total, wait, o, leaky, rate)
			}
		}
		if err := checkDelivery(sinks, plans, acceptedOK, drained); err != nil {
			kit.BoundedClose(p.Close)
			t.Fatalf("%v (leaky bucket %v, rate %d)", err, leaky, rate)
		}
		if err := checkUntampered(sinks); err != nil {
			kit.BoundedClose(p.Close)
			t.Fatalf("%v (leaky bucket %v, rate %d)", err, leaky, rate)
		}
		kit.BoundedClose(p.Close)
		if !drained {
			t.Skipf("inconclusive: %d of %d delivered within %v", totalDelivered(sinks), total, wait)
		}
		rec.Case(kit.NewH().I(rate, nStreams, nWriters, total, sumBits).Sum(), (nStreams >= 2 || nWriters >= 2) && total >= 20, []string{fmt.Sprintf("leaky=%v", leaky)}, func() any {
			return map[string]any{"leaky_bucket": leaky, "rate": rate, "streams": nStreams, "writers": nWriters, "packets": total}
		})
	})
}
