package c17

import (
	"testing"
	"time"

	"github.com/pion/interceptor"
	"github.com/pion/interceptor/pkg/pacing"
	"github.com/pion/interceptor/verifharness/kit"
	"github.com/pion/rtp"
)

// TestKnownOversizeHeadOfLine reproduces the listed finding C17-oversize-head-of-line on its exact signature: a
// packet that needs more tokens than the bucket can ever hold is accepted, never released, and blocks the queue.
// The generated search excludes such packets by construction (and counts the exclusions) so that it keeps exploring.
func TestKnownOversizeHeadOfLine(t *testing.T) {
	rec := kit.NewRecorder("C17", "known-oversize-head-of-line",
		"fixed reproduction of the listed known finding: 1 Mbit/s, 5 ms interval (burst 12000 bits), a 1532-byte packet followed by a 13-byte one")
	f := pacing.NewInterceptor(pacing.InitialRate(1_000_000), pacing.Interval(5*time.Millisecond))
	ic, err := f.NewInterceptor("pc")
	if err != nil {
		t.Fatal(err)
	}
	defer kit.BoundedClose(ic.Close)
	sink := &kit.RTPSink{}
	w := ic.BindLocalStream(&interceptor.StreamInfo{SSRC: 1}, sink)
	big := rtp.Header{Version: 2, SSRC: 1, SequenceNumber: 1, CSRC: make([]uint32, 15)}
	if _, err := w.Write(&big, make([]byte, 1460), nil); err != nil {
		return // refusing the packet is a correct way of handling it
	}
	small := rtp.Header{Version: 2, SSRC: 1, SequenceNumber: 2}
	_, _ = w.Write(&small, []byte{1}, nil)
	delivered := kit.Eventually(1500*time.Millisecond, func() bool { return sink.Len() >= 2 })
	rec.Case(1, true, nil, func() any {
		return map[string]any{"rate": 1_000_000, "interval_ms": 5, "packets": []int{1532, 13}, "delivered_within_300_intervals": sink.Len()}
	})
	rec.Case(2, true, nil, nil)
	if delivered {
		return
	}
	if kit.Known("C17-oversize-head-of-line") {
		rec.KnownHit("C17-oversize-head-of-line")

		return
	}
	kit.WriteReplay("TestKnownOversizeHeadOfLine", []byte(`{"rate":1000000,"interval_ms":5,"packets":[1532,13]}`))
	t.Fatalf("a 1532-byte packet (12256 bits, bucket holds 12000) was accepted but never released and blocks the packet behind it: %d of 2 delivered after 300 intervals", sink.Len())
}
