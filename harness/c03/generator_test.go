package c03

import (
	"errors"
	"fmt"
	"sort"
	"testing"
	"time"

	"github.com/pion/interceptor"
	"github.com/pion/interceptor/pkg/nack"
	"github.com/pion/interceptor/verifharness/kit"
	"github.com/pion/rtcp"
	"github.com/pion/rtp"
	"pgregory.net/rapid"
)

const (
	interval     = 250 * time.Microsecond
	sentinelSSRC = 0xEEEE
)

var errInjected = errors.New("injected read error")

// streamModel is the statement's reference: first number ever received, highest (serial arithmetic) and the
// set of received numbers, all unwrapped.
type streamModel struct {
	ssrc     uint32
	started  bool
	first    int64
	high     int64
	high16   uint16
	received map[int64]bool
	requests map[int64]int // how often each (unwrapped) number was requested over the whole run
}

func (m *streamModel) add(seq uint16) string {
	if !m.started {
		m.started, m.high16 = true, seq
		m.first, m.high = 1<<20+int64(seq), 1<<20+int64(seq)
		m.received[m.high] = true

		return "first"
	}
	diff := seq - m.high16
	switch {
	case diff == 0:
		return "duplicate"
	case diff < 1<<15:
		m.high += int64(diff)
		m.high16 = seq
		m.received[m.high] = true
		if diff > 1 {
			return "gap"
		}

		return "in-order"
	default:
		back := int64(m.high16 - seq)
		u := m.high - back
		if m.received[u] {
			return "duplicate"
		}
		m.received[u] = true

		return "late"
	}
}

func (m *streamModel) unwrap(seq uint16) int64 { return m.high - int64(m.high16-seq) }

func (m *streamModel) missing(size, skip int) []int64 {
	if !m.started {
		return nil
	}
	var out []int64
	lo := max(m.first+1, m.high-int64(size)+1)
	for u := lo; u <= m.high-int64(skip); u++ {
		if !m.received[u] {
			out = append(out, u)
		}
	}

	return out
}

type bound struct {
	info   *interceptor.StreamInfo
	src    *kit.ByteSource
	reader interceptor.RTPReader
	model  *streamModel
	nack   bool
	cursor uint16
}

func (b *bound) feed(seq uint16, fail bool) error {
	if fail {
		b.src.PushErr(errInjected)
	} else {
		raw, _ := (&rtp.Packet{Header: rtp.Header{Version: 2, SSRC: b.info.SSRC, SequenceNumber: seq}, Payload: []byte{0}}).Marshal()
		b.src.Push(raw)
	}
	buf := kit.DirtyBuffer(1500)
	_, _, err := b.reader.Read(buf, interceptor.Attributes{})
	if fail {
		if !errors.Is(err, errInjected) {
			return fmt.Errorf("read error was not passed up: %v", err)
		}

		return nil
	}

	return err
}

func nacksFor(calls []kit.SentRTCP, ssrc uint32) [][]uint16 {
	var out [][]uint16
	for _, c := range calls {
		for _, p := range c.Pkts {
			if n, ok := p.(*rtcp.TransportLayerNack); ok && n.MediaSSRC == ssrc {
				var seqs []uint16
				for _, pair := range n.Nacks {
					seqs = append(seqs, pair.PacketList()...)
				}
				out = append(out, seqs)
			}
		}
	}

	return out
}

func contains(s []uint16, v uint16) bool {
	for _, x := range s {
		if x == v {
			return true
		}
	}

	return false
}

func TestGeneratorRequestsExactlyMissing(t *testing.T) {
	rec := kit.NewRecorder("C03", "generator-sentinel-protocol",
		"arrival histories (in order, gaps, duplicates, reordering in/at/beyond the window, jumps up to 2^15-1, old packets, wrap, failing reads) over 1-2 NACK streams "+
			"+ a stream without nack feedback + a sentinel stream, sizes 64..32768, skipLastN, maxNacksPerPacket, through the public interceptor with a 250 us ticker; "+
			"observation by sentinel gaps (only NACKs of ticks that provably ran on the quiescent state are judged); "+
			"non-trivial = an observation with non-empty Missing in a history with a wrap, a late packet or a jump beyond the window; distinct by history")
	rapid.Check(t, func(t *rapid.T) {
		sizeExp := rapid.OneOf(rapid.IntRange(6, 9), rapid.IntRange(6, 15)).Draw(t, "sizeExp")
		size := 1 << sizeExp
		skip := rapid.OneOf(rapid.Just(0), rapid.Just(0), rapid.IntRange(1, 5), rapid.IntRange(size-3, size+2)).Draw(t, "skipLastN")
		limit := rapid.SampledFrom([]int{0, 0, 1, 2, 5}).Draw(t, "maxNacksPerPacket")
		// the options are independent settings: the order in which the application lists them does not matter
		opts := rapid.Permutation([]nack.GeneratorOption{nack.GeneratorSize(uint16(size)), nack.GeneratorSkipLastN(uint16(skip)), //nolint:gosec
			nack.GeneratorMaxNacksPerPacket(uint16(limit)), nack.GeneratorInterval(interval)}).Draw(t, "optionOrder") //nolint:gosec
		f, err := nack.NewGeneratorInterceptor(opts...)
		if err != nil {
			t.Fatalf("factory: %v", err)
		}
		ic, err := f.NewInterceptor("")
		if err != nil {
			t.Fatalf("NewInterceptor: %v", err)
		}
		sink := &kit.RTCPSink{}
		ic.BindRTCPWriter(sink)
		closed := false
		defer func() {
			if !closed {
				kit.BoundedClose(ic.Close)
			}
		}()
		mk := func(ssrc uint32, withNack bool) *bound {
			info := &interceptor.StreamInfo{SSRC: ssrc}
			// generic NACK is negotiated iff the list has an entry {nack, ""}, wherever it stands among the other feedback types
			others := []interceptor.RTCPFeedback{{Type: "nack", Parameter: "pli"}, {Type: "ccm", Parameter: "fir"}, {Type: "goog-remb"}, {Type: "transport-cc"}}
			var fb []interceptor.RTCPFeedback
			for _, o := range others {
				if rapid.IntRange(0, 2).Draw(t, "otherFb") == 0 {
					fb = append(fb, o)
				}
			}
			if withNack {
				at := rapid.IntRange(0, len(fb)).Draw(t, "nackAt")
				fb = append(fb[:at:at], append([]interceptor.RTCPFeedback{{Type: "nack"}}, fb[at:]...)...)
			} else if len(fb) == 0 && rapid.Bool().Draw(t, "onlyPli") {
				fb = []interceptor.RTCPFeedback{{Type: "nack", Parameter: "pli"}}
			}
			info.RTCPFeedback = fb
			b := &bound{info: info, src: &kit.ByteSource{}, nack: withNack, model: &streamModel{ssrc: ssrc, received: map[int64]bool{}, requests: map[int64]int{}}}
			b.reader = ic.BindRemoteStream(info, b.src)

			return b
		}
		nA := rapid.IntRange(1, 2).Draw(t, "nackStreams")
		var streams []*bound
		firstSSRC := rapid.SampledFrom([]uint32{100, 100, 0, 0xFFFFFFFF}).Draw(t, "firstSSRC") // any 32-bit value identifies a stream
		for i := 0; i < nA; i++ {
			ssrc := uint32(100 + i) //nolint:gosec
			if i == 0 {
				ssrc = firstSSRC
			}
			b := mk(ssrc, true)
			b.cursor = kit.U16Boundary().Draw(t, "start")
			streams = append(streams, b)
		}
		plain := mk(300, false)
		plain.cursor = 500
		streams = append(streams, plain)
		// a further NACK stream comes and goes during the history: its Unbind concerns no other stream
		extra := mk(400, true)
		for _, q := range []uint16{7, 8, 10, 12} {
			if err := extra.feed(q, false); err != nil {
				t.Fatalf("extra feed: %v", err)
			}
		}
		sentinel := mk(sentinelSSRC, true)
		sentinelOK := skip < size // otherwise the window behind highest-skipLastN is empty for every stream
		sentNext := uint16(1000)
		if err := sentinel.feed(sentNext, false); err != nil {
			t.Fatalf("sentinel feed: %v", err)
		}
		h := kit.NewH().I(size, skip, limit)
		classes := map[string]bool{}
		interesting, nonEmptyObs := false, false
		var log []string
		logf := func(f string, a ...any) {
			if len(log) < 70 {
				log = append(log, fmt.Sprintf(f, a...))
			}
		}
		consumed := 0 // sink calls already attributed
		// account attributes every NACK written so far to unwrapped numbers (for the per-number limit)
		account := func(upto int) {
			calls := sink.Calls()
			for _, b := range streams[:nA] {
				for _, seqs := range nacksFor(calls[consumed:upto], b.info.SSRC) {
					for _, s := range seqs {
						u := b.model.unwrap(s)
						b.model.requests[u]++
						if limit > 0 && b.model.requests[u] > limit {
							t.Fatalf("ssrc %d: number %d requested %d times, the per-packet limit is %d\nall NACKs for it: %v\nevents: %v", b.info.SSRC, s, b.model.requests[u], limit, nacksFor(calls, b.info.SSRC), log)
						}
					}
				}
			}
			for _, seqs := range nacksFor(calls[consumed:upto], plain.info.SSRC) {
				t.Fatalf("NACK %v for ssrc %d which did not negotiate NACK", seqs, plain.info.SSRC)
			}
			consumed = upto
		}
		// waitSentinel creates a fresh gap on the sentinel stream and waits for a NACK naming it;
		// returns the sink index just after that NACK.
		waitSentinel := func() int {
			gap := sentNext + 1
			if skip >= 16384 { // keep every forward step below 2^15 (a step of exactly 2^15 is not "newer")
				if err := sentinel.feed(gap+uint16(skip/2), false); err != nil { //nolint:gosec
					t.Fatalf("sentinel feed: %v", err)
				}
			}
			sentNext = gap + uint16(max(1, skip)) //nolint:gosec // gap <= highest-skipLastN and inside the window
			from := sink.Len()
			if err := sentinel.feed(sentNext, false); err != nil {
				t.Fatalf("sentinel feed: %v", err)
			}
			idx := -1
			ok := kit.Eventually(10*time.Second, func() bool {
				calls := sink.Calls()
				for i := from; i < len(calls); i++ {
					for _, p := range calls[i].Pkts {
						if n, isN := p.(*rtcp.TransportLayerNack); isN && n.MediaSSRC == sentinelSSRC {
							for _, pair := range n.Nacks {
								if contains(pair.PacketList(), gap) {
									idx = i + 1

									return true
								}
							}
						}
					}
				}

				return false
			})
			if !ok {
				t.Fatalf("sentinel stream: number %d (window %d, skipLastN %d) was not requested within 10 s (interval 250 us)", gap, size, skip)
			}

			return idx
		}
		observe := func() {
			var lo, hi int
			if sentinelOK {
				lo = waitSentinel() // everything written from here on was computed after the last fed packet
				waitSentinel()
				hi = waitSentinel() // one complete tick lies between lo and hi
			} else {
				lo = sink.Len()
				time.Sleep(20 * interval)
				hi = sink.Len()
			}
			calls := sink.Calls()
			// attribute the (possibly stale) NACKs before the fresh window first
			account(lo)
			for _, b := range streams[:nA] {
				want := b.model.missing(size, skip)
				wantSet := map[uint16]bool{}
				for _, u := range want {
					wantSet[uint16(u)] = true //nolint:gosec
				}
				got := nacksFor(calls[lo:hi], b.info.SSRC)
				logf("observe ssrc=%d high=%d missing=%d nacks-in-window=%d", b.info.SSRC, b.model.high16, len(want), len(got))
				if len(want) > 0 {
					nonEmptyObs = true
				}
				if !sentinelOK {
					if len(got) > 0 {
						t.Fatalf("ssrc %d: skipLastN %d >= window %d, nothing can be requested, but NACKs were written: %v", b.info.SSRC, skip, size, got[0])
					}

					continue
				}
				for _, seqs := range got {
					for _, s := range seqs {
						if !wantSet[s] {
							why := "was received"
							u := b.model.unwrap(s)
							switch {
							case u > b.model.high-int64(skip):
								why = fmt.Sprintf("is ahead of highest-skipLastN (%d-%d)", b.model.high16, skip)
							case u <= b.model.first:
								why = "is not after the first packet received"
							case u <= b.model.high-int64(size):
								why = fmt.Sprintf("is outside the window of %d behind the highest %d", size, b.model.high16)
							}
							t.Fatalf("ssrc %d: number %d is requested but %s (missing set has %d numbers: %v)", b.info.SSRC, s, why, len(want), head(want))
						}
					}
					if limit == 0 && len(seqs) != len(want) {
						miss := []uint16{}
						for _, u := range want {
							if !contains(seqs, uint16(u)) { //nolint:gosec
								miss = append(miss, uint16(u)) //nolint:gosec
							}
						}
						t.Fatalf("ssrc %d: NACK requests %d numbers, %d are missing; not requested: %v (highest %d, window %d, skipLastN %d)",
							b.info.SSRC, len(seqs), len(want), miss[:min(len(miss), 10)], b.model.high16, size, skip)
					}
				}
				if limit == 0 && len(want) > 0 && len(got) == 0 {
					t.Fatalf("ssrc %d: %d numbers are missing (%v; highest %d, window %d, skipLastN %d) but a complete tick passed without a NACK",
						b.info.SSRC, len(want), head(want), b.model.high16, size, skip)
				}
			}
			account(hi)
			if limit > 0 && sentinelOK {
				for _, b := range streams[:nA] {
					for _, u := range b.model.missing(size, skip) {
						if b.model.requests[u] == 0 {
							t.Fatalf("ssrc %d: number %d is missing and was never requested although a complete tick passed (limit %d)", b.info.SSRC, uint16(u), limit) //nolint:gosec
						}
					}
				}
			}
		}
		n := rapid.IntRange(1, 400).Draw(t, "arrivals")
		obsLeft := 6
		advanced := map[*bound]int{}
		unbindExtraAt := rapid.IntRange(0, n).Draw(t, "unbindExtraAt")
		for i := 0; i < n; i++ {
			if i == unbindExtraAt {
				ic.UnbindRemoteStream(extra.info)
				classes["other-stream-unbound"] = true
			}
			b := streams[rapid.IntRange(0, len(streams)-1).Draw(t, "stream")]
			var seq uint16
			kind := rapid.IntRange(0, 13).Draw(t, "kind")
			switch kind {
			case 0, 1, 2, 3, 4, 5:
				b.cursor++
				seq = b.cursor
			case 6:
				b.cursor += uint16(rapid.IntRange(2, 6).Draw(t, "gap")) //nolint:gosec
				seq = b.cursor
			case 7:
				seq = b.cursor // duplicate
			case 8: // reorder within the window
				seq = b.cursor - uint16(rapid.IntRange(1, min(size-1, 40)).Draw(t, "back")) //nolint:gosec
			case 9: // around the window edge
				seq = b.cursor - uint16(rapid.IntRange(size-2, size+2).Draw(t, "edge")) //nolint:gosec
			case 10: // older than the window
				if size+1 > 32767 {
					b.cursor++
					seq = b.cursor

					break
				}
				seq = b.cursor - uint16(rapid.IntRange(size+1, 32767).Draw(t, "old")) //nolint:gosec
			case 11: // jump around / beyond the window
				j := rapid.OneOf(rapid.IntRange(size-2, size+2), rapid.IntRange(7, 300), rapid.IntRange(300, 32767)).Draw(t, "jump")
				if advanced[b]+j > 30000 {
					j = 2
				}
				b.cursor += uint16(j) //nolint:gosec
				seq = b.cursor
			case 12: // "old" beyond half the number space
				if 65535-size < 32769 {
					b.cursor++
					seq = b.cursor

					break
				}
				seq = b.cursor - uint16(rapid.IntRange(32769, 65535-size).Draw(t, "veryold")) //nolint:gosec
			default:
				seq = b.cursor + 1
			}
			fail := kind == 13
			if b.model.started && !fail && seq-b.model.high16 < 1<<15 {
				// requests are attributed to unwrapped numbers relative to the highest number at the next
				// observation: keep the advance between two observations well below 2^16
				if advanced[b]+int(seq-b.model.high16) > 30000 {
					seq = b.model.high16 + 1
				}
				advanced[b] += int(seq - b.model.high16)
			}
			h.U(uint64(b.info.SSRC), uint64(seq), uint64(kind))
			if err := b.feed(seq, fail); err != nil {
				t.Fatalf("feed: %v", err)
			}
			if fail {
				classes["failed-read"] = true

				continue
			}
			if b.nack {
				before := b.model.high16
				cl := b.model.add(seq)
				classes[cl] = true
				if b.model.high16 < before && cl != "late" && cl != "duplicate" {
					classes["wrap"] = true
				}
				if cl == "late" || kind == 10 || kind == 12 || classes["wrap"] || (kind == 11 && int(seq-before) > size) {
					interesting = true
				}
				logf("ssrc=%d seq=%d (%s)", b.info.SSRC, seq, cl)
				b.cursor = b.model.high16 // the generator's cursor follows the highest number received
			}
			if obsLeft > 0 && rapid.IntRange(0, 39).Draw(t, "observe") == 0 {
				obsLeft--
				h.U(0xFFFFFFFF)
				observe()
				for k := range advanced {
					advanced[k] = 0
				}
			}
		}
		observe()
		closed = true
		if o := kit.Guard(0, func() { _ = ic.Close() }); !o.OK() {
			t.Fatalf("Close: %s", o)
		}
		var cl []string
		for c := range classes {
			cl = append(cl, c)
		}
		sort.Strings(cl)
		rec.Case(h.Sum(), interesting && nonEmptyObs, append(cl, fmt.Sprintf("size=2^%d", sizeExp), fmt.Sprintf("limit=%d", limit)), func() any {
			return map[string]any{"size": size, "skip_last_n": skip, "max_nacks_per_packet": limit, "arrivals": n, "events": log}
		})
	})
}

func head(u []int64) []uint16 {
	var out []uint16
	for _, x := range u[:min(len(u), 10)] {
		out = append(out, uint16(x)) //nolint:gosec
	}

	return out
}
