package c03

import (
	"testing"
	"time"

	"github.com/pion/interceptor"
	"github.com/pion/interceptor/pkg/nack"
	"github.com/pion/interceptor/verifharness/kit"
)

// Plain regression checks for the confirmed findings of C03 (see /verif/KNOWN_FINDINGS.json).

func regressSetup(t *testing.T, size, skip uint16) (*bound, *kit.RTCPSink, func()) {
	t.Helper()
	f, _ := nack.NewGeneratorInterceptor(nack.GeneratorSize(size), nack.GeneratorSkipLastN(skip), nack.GeneratorInterval(interval))
	ic, err := f.NewInterceptor("")
	if err != nil {
		t.Fatal(err)
	}
	sink := &kit.RTCPSink{}
	ic.BindRTCPWriter(sink)
	info := &interceptor.StreamInfo{SSRC: 100, RTCPFeedback: []interceptor.RTCPFeedback{{Type: "nack"}}}
	b := &bound{info: info, src: &kit.ByteSource{}, nack: true}
	b.reader = ic.BindRemoteStream(info, b.src)

	return b, sink, func() { _ = ic.Close() }
}

func requested(sink *kit.RTCPSink, from int, seq uint16) bool {
	calls := sink.Calls()
	for _, seqs := range nacksFor(calls[min(from, len(calls)):], 100) {
		if contains(seqs, seq) {
			return true
		}
	}

	return false
}

func TestRegressLatePacketDoesNotAliasWindow(t *testing.T) {
	b, sink, done := regressSetup(t, 64, 0)
	defer done()
	for s := uint16(90); s <= 200; s++ {
		if s != 164 {
			_ = b.feed(s, false)
		}
	}
	_ = b.feed(100, false) // older than the window of 64 behind 200; shares a bitmap slot with 164
	from := sink.Len()
	time.Sleep(4 * interval)
	if !kit.Eventually(5*time.Second, func() bool { return requested(sink, from+2, 164) }) {
		kit.WriteReplay("TestRegressLatePacketDoesNotAliasWindow", []byte(`{"size":64,"arrivals":"90..200 without 164, then 100","expect":"164 requested"}`))
		t.Fatalf("size 64: after 90..200 without 164 and a late 100, number 164 is no longer requested")
	}
}

func TestRegressFullWindowLagStillRequests(t *testing.T) {
	b, sink, done := regressSetup(t, 32768, 0)
	defer done()
	_ = b.feed(1, false)
	_ = b.feed(20000, false)
	_ = b.feed(33137, false)
	if !kit.Eventually(5*time.Second, func() bool { return requested(sink, 0, 33000) }) {
		kit.WriteReplay("TestRegressFullWindowLagStillRequests", []byte(`{"size":32768,"arrivals":[1,20000,33137],"expect":"33000 requested"}`))
		t.Fatalf("size 32768: first 1, highest 33137: nothing is requested although 32766 numbers are missing")
	}
}

func TestRegressHugeSkipLastNRequestsNothing(t *testing.T) {
	b, sink, done := regressSetup(t, 32768, 32769)
	defer done()
	_ = b.feed(1, false)
	_ = b.feed(300, false)
	time.Sleep(40 * interval)
	if sink.Len() != 0 {
		kit.WriteReplay("TestRegressHugeSkipLastNRequestsNothing", []byte(`{"size":32768,"skip_last_n":32769,"arrivals":[1,300],"expect":"no NACK"}`))
		t.Fatalf("skipLastN 32769 >= window 32768: nothing can lie behind highest-skipLastN, but %d NACKs were written", sink.Len())
	}
}
