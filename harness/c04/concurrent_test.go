package c04

import (
	"encoding/binary"
	"fmt"
	"runtime"
	"sync"
	"sync/atomic"
	"testing"

	"github.com/pion/interceptor"
	"github.com/pion/interceptor/pkg/nack"
	"github.com/pion/interceptor/verifharness/kit"
	"github.com/pion/rtcp"
	"github.com/pion/rtp"
	"pgregory.net/rapid"
)

// self-describing packets: the payload names (ssrc, seq, generation) and everything else is derived from it
func selfPayload(ssrc uint32, seq uint16, gen uint16) []byte {
	n := 8 + int((uint32(seq)*31+uint32(gen)*7)%1400)
	b := kit.FillBytes(n, uint64(ssrc)<<32|uint64(seq)<<16|uint64(gen))
	binary.BigEndian.PutUint32(b[0:], ssrc)
	binary.BigEndian.PutUint16(b[4:], seq)
	binary.BigEndian.PutUint16(b[6:], gen)

	return b
}

func selfTS(seq, gen uint16) uint32 { return uint32(seq)*90 + uint32(gen) }

// checkSelf verifies that a packet seen downstream is, as a whole, one packet that was really sent.
func checkSelf(s kit.SentRTP, mediaSSRC, rtxSSRC uint32) error {
	p := s.Payload
	isRTX := s.Header.SSRC == rtxSSRC && rtxSSRC != 0
	if !isRTX && s.Header.SSRC != mediaSSRC {
		return fmt.Errorf("unexpected SSRC %d", s.Header.SSRC)
	}
	var osn uint16
	if isRTX {
		if len(p) < 2 {
			return fmt.Errorf("RTX packet with %d-byte payload", len(p))
		}
		osn = binary.BigEndian.Uint16(p)
		p = p[2:]
	}
	if len(p) < 8 {
		return fmt.Errorf("payload too short (%d bytes)", len(p))
	}
	ssrc, seq, gen := binary.BigEndian.Uint32(p), binary.BigEndian.Uint16(p[4:]), binary.BigEndian.Uint16(p[6:])
	want := selfPayload(ssrc, seq, gen)
	if ssrc != mediaSSRC || string(want) != string(p) {
		return fmt.Errorf("payload is not the payload of any packet sent (claims ssrc %d seq %d gen %d, %d bytes)", ssrc, seq, gen, len(p))
	}
	if isRTX && osn != seq {
		return fmt.Errorf("RTX original sequence number %d but the payload is that of packet %d", osn, seq)
	}
	if !isRTX && s.Header.SequenceNumber != seq {
		return fmt.Errorf("header sequence number %d carries the payload of packet %d", s.Header.SequenceNumber, seq)
	}
	if s.Header.Timestamp != selfTS(seq, gen) {
		return fmt.Errorf("packet %d (gen %d) has timestamp %d, sent with %d: header of another packet", seq, gen, s.Header.Timestamp, selfTS(seq, gen))
	}
	if s.Header.Marker != (seq%2 == 0) || len(s.Header.CSRC) != int(seq%3) {
		return fmt.Errorf("packet %d has marker/CSRC of another packet", seq)
	}

	return nil
}

// TestResponderConcurrent: while a writer keeps sending (buffers recycled constantly), NACKs are processed
// asynchronously and another stream is unbound; everything that reaches the transport must be self-consistent.
func TestResponderConcurrent(t *testing.T) {
	rec := kit.NewRecorder("C04", "responder-concurrent",
		"a writer goroutine sends 300..3000 self-describing packets (small buffer sizes so slots and pooled buffers are recycled) while a second goroutine reads "+
			"NACKs for recent numbers and a third unbinds/re-binds another stream; non-trivial = at least one retransmission observed; distinct by parameters")
	rapid.Check(t, func(t *rapid.T) {
		kit.Idle()
		sizeExp := rapid.IntRange(0, 6).Draw(t, "sizeExp")
		rtx := rapid.Bool().Draw(t, "rtx")
		n := rapid.IntRange(300, 3000).Draw(t, "packets")
		start := kit.U16Boundary().Draw(t, "start")
		f, _ := nack.NewResponderInterceptor(nack.ResponderSize(uint16(1 << sizeExp))) //nolint:gosec
		ic, err := f.NewInterceptor("")
		if err != nil {
			t.Fatalf("NewInterceptor: %v", err)
		}
		info := &interceptor.StreamInfo{SSRC: 77, RTCPFeedback: []interceptor.RTCPFeedback{{Type: "nack"}}}
		other := &interceptor.StreamInfo{SSRC: 78, RTCPFeedback: []interceptor.RTCPFeedback{{Type: "nack"}}}
		var rtxSSRC uint32
		if rtx {
			info.SSRCRetransmission, info.PayloadTypeRetransmission = 177, 97
			rtxSSRC = 177
		}
		var bad atomic.Value
		var retrans atomic.Int64
		var highest atomic.Uint32
		sink := &kit.RTPSink{}
		sink.OnCall = func(s kit.SentRTP) {
			if e := checkSelf(s, 77, rtxSSRC); e != nil {
				bad.CompareAndSwap(nil, e.Error())
			}
		}
		w := ic.BindLocalStream(info, sink)
		otherSink := &kit.RTPSink{}
		ow := ic.BindLocalStream(other, otherSink)
		src := &kit.ByteSource{}
		rr := ic.BindRTCPReader(src)
		var wg sync.WaitGroup
		done := make(chan struct{})
		wg.Add(3)
		go func() { // writer
			defer wg.Done()
			defer close(done)
			for i := 0; i < n; i++ {
				seq := start + uint16(i) //nolint:gosec
				gen := uint16(0)
				hdr := rtp.Header{Version: 2, SSRC: 77, SequenceNumber: seq, Timestamp: selfTS(seq, gen), Marker: seq%2 == 0, PayloadType: 96}
				for c := 0; c < int(seq%3); c++ {
					hdr.CSRC = append(hdr.CSRC, uint32(c))
				}
				if _, err := w.Write(&hdr, selfPayload(77, seq, gen), nil); err != nil {
					bad.CompareAndSwap(nil, "Write failed: "+err.Error())
				}
				highest.Store(uint32(seq))
			}
		}()
		go func() { // NACK reader
			defer wg.Done()
			buf := make([]byte, 1500)
			var lastHi uint16
			for k := 0; ; k++ {
				select {
				case <-done:
					return
				default:
				}
				hi := uint16(highest.Load()) //nolint:gosec
				if k > 0 && hi == lastHi { // pace by the writer's progress: at most one NACK per packet sent
					runtime.Gosched()
					k--

					continue
				}
				lastHi = hi
				pkt := &rtcp.TransportLayerNack{SenderSSRC: 1, MediaSSRC: 77, Nacks: []rtcp.NackPair{{PacketID: hi - uint16(k%5), LostPackets: rtcp.PacketBitmap(uint16(k * 2654435761 >> 3))}}} //nolint:gosec
				raw, _ := pkt.Marshal()
				src.Push(raw)
				if _, _, err := rr.Read(buf, interceptor.Attributes{}); err != nil {
					bad.CompareAndSwap(nil, "RTCP read failed: "+err.Error())
				}
			}
		}()
		go func() { // lifecycle on the other stream
			defer wg.Done()
			var lastSeen uint32
			for k := 0; ; k++ {
				select {
				case <-done:
					return
				default:
				}
				if hi := highest.Load(); k > 0 && hi == lastSeen {
					runtime.Gosched()
					k--

					continue
				} else {
					lastSeen = hi
				}
				hdr := rtp.Header{Version: 2, SSRC: 78, SequenceNumber: uint16(k)} //nolint:gosec
				_, _ = ow.Write(&hdr, []byte{1, 2, 3}, nil)
				if k%7 == 0 {
					ic.UnbindLocalStream(other)
					ow = ic.BindLocalStream(other, otherSink)
				}
			}
		}()
		if o := kit.Guard(0, wg.Wait); !o.OK() {
			t.Fatalf("concurrent run did not finish: %s", o)
		}
		kit.StableGoroutines()
		_ = ic.Close()
		calls := sink.Calls()
		seen := map[uint16]int{}
		for _, c := range calls {
			if c.Header.SSRC == 77 {
				seen[c.Header.SequenceNumber]++
			}
			if c.Header.SSRC == rtxSSRC && rtx {
				retrans.Add(1)
			}
		}
		for _, k := range seen {
			if k > 1 {
				retrans.Add(int64(k - 1))
			}
		}
		if v := bad.Load(); v != nil {
			t.Fatalf("%v (size 2^%d, rtx %v, %d packets)", v, sizeExp, rtx, n)
		}
		rec.Case(kit.NewH().I(sizeExp, n).U(uint64(start)).Sum(), retrans.Load() > 0, []string{fmt.Sprintf("rtx=%v", rtx)}, func() any {
			return map[string]any{"size": 1 << sizeExp, "rtx": rtx, "packets": n, "start": start, "retransmissions_seen": retrans.Load(), "downstream_writes": len(calls)}
		})
	})
}
