package c04

import (
	"errors"
	"bytes"
	"fmt"
	"sort"
	"testing"
	"time"

	"github.com/pion/interceptor"
	"github.com/pion/interceptor/pkg/nack"
	"github.com/pion/interceptor/verifharness/kit"
	"github.com/pion/rtcp"
	"github.com/pion/rtp"
	"pgregory.net/rapid"
)

type content struct {
	hdr     rtp.Header
	payload []byte
}

// streamModel: the most recent `size` sequence numbers up to the highest one sent, each with the
// contents sent under that number while it stayed in the window.
type streamModel struct {
	size    int
	started bool
	high    uint16
	ring    map[uint16][]content
	rtx     bool
	rtxSSRC uint32
	rtxPT   uint8
	evicted bool
}

func (m *streamModel) send(c content) (class string) {
	seq := c.hdr.SequenceNumber
	if !m.started {
		m.started, m.high = true, seq
		m.ring = map[uint16][]content{seq: {c}}

		return "first"
	}
	diff := seq - m.high
	switch {
	case diff == 0:
		m.ring[seq] = append(m.ring[seq], c)

		return "dup-of-highest"
	case diff < 1<<15:
		m.high = seq
		for s := range m.ring {
			if int(m.high-s) >= m.size {
				delete(m.ring, s)
				m.evicted = true
			}
		}
		m.ring[seq] = []content{c}
		if diff > 1 {
			return "gap"
		}

		return "in-order"
	default:
		if int(m.high-seq) < m.size {
			m.ring[seq] = append(m.ring[seq], c)
			if len(m.ring[seq]) > 1 {
				return "late-duplicate"
			}

			return "late-in-window"
		}

		return "late-out-of-window"
	}
}

// admissible reports whether got is the retransmission form of c.
func (m *streamModel) admissible(got kit.SentRTP, c content) bool {
	if !m.rtx {
		return kit.HeaderEqual(&got.Header, &c.hdr) && bytes.Equal(got.Payload, c.payload)
	}
	want := c.hdr.Clone()
	orig := c.payload
	if want.Padding {
		if want.PaddingSize == 0 && len(orig) > 0 { // legacy form: count in the last payload byte
			orig = orig[:len(orig)-int(orig[len(orig)-1])]
		}
		want.Padding, want.PaddingSize = false, 0
	}
	want.SSRC, want.PayloadType = m.rtxSSRC, m.rtxPT
	want.SequenceNumber = got.Header.SequenceNumber // RTX sequence number is not constrained by the statement
	if !kit.HeaderEqual(&got.Header, &want) {
		return false
	}
	if len(got.Payload) != len(orig)+2 {
		return false
	}

	return got.Payload[0] == byte(c.hdr.SequenceNumber>>8) && got.Payload[1] == byte(c.hdr.SequenceNumber) && bytes.Equal(got.Payload[2:], orig)
}

func describe(s kit.SentRTP) string {
	return fmt.Sprintf("{ssrc %d pt %d seq %d ts %d pad %v/%d csrc %d ext %v payload %d bytes % x...}", s.Header.SSRC, s.Header.PayloadType, s.Header.SequenceNumber,
		s.Header.Timestamp, s.Header.Padding, s.Header.PaddingSize, len(s.Header.CSRC), s.Header.Extension, len(s.Payload), s.Payload[:min(len(s.Payload), 6)])
}

var errTransportDown = errors.New("injected transport error")

type boundStream struct {
	info   *interceptor.StreamInfo
	sink   *kit.RTPSink
	writer interceptor.RTPWriter
	model  *streamModel
	bound  bool
	nack   bool
	nextTS uint32
	cursor uint16
}

func genPayloadAndPadding(t *rapid.T, hdr *rtp.Header, rtx bool) []byte {
	n := rapid.OneOf(rapid.SampledFrom([]int{0, 1, 2, 1458, 1459, 1460}), rapid.IntRange(0, 1460), rapid.IntRange(0, 40)).Draw(t, "plen")
	payload := kit.FillBytes(n, rapid.Uint64().Draw(t, "fill"))
	hdr.Padding, hdr.PaddingSize = false, 0
	switch rapid.IntRange(0, 5).Draw(t, "padform") {
	case 0: // current pion/rtp form
		hdr.Padding = true
		hdr.PaddingSize = byte(rapid.IntRange(1, 255).Draw(t, "padsize"))
	case 1: // legacy form: only meaningful (and documented) for the RTX path
		if rtx && n > 0 {
			hdr.Padding = true
			payload[n-1] = byte(rapid.IntRange(1, min(n, 255)).Draw(t, "legacycount"))
		}
	}

	return payload
}

func TestResponderRetransmits(t *testing.T) {
	rec := kit.NewRecorder("C04", "responder-deterministic",
		"send histories (in order, gaps, late in/out of window, duplicates with new content, wrap; payload 0..1460 biased to the edges; padding forms) on 1-2 bound "+
			"streams + unbound/non-NACK streams, interleaved with NACKs (sent, never-sent, evicted, foreign numbers, repeats), Unbind and re-bind; buffer sizes 1..32768, "+
			"RTX on/off, DisableCopy; quiescence after every RTCP read; non-trivial = a NACK answered after >= 1 eviction; distinct by history")
	rapid.Check(t, func(t *rapid.T) {
		kit.Idle()
		sizeExp := rapid.OneOf(rapid.IntRange(0, 15), rapid.IntRange(0, 5)).Draw(t, "sizeExp")
		size := 1 << sizeExp
		rtx := rapid.Bool().Draw(t, "rtx")
		disableCopy := !rtx && rapid.IntRange(0, 4).Draw(t, "disableCopy") == 0
		opts := []nack.ResponderOption{nack.ResponderSize(uint16(size))} //nolint:gosec
		if disableCopy {
			opts = append(opts, nack.DisableCopy())
		}
		f, err := nack.NewResponderInterceptor(opts...)
		if err != nil {
			t.Fatalf("factory: %v", err)
		}
		ic, err := f.NewInterceptor("")
		if err != nil {
			t.Fatalf("NewInterceptor(size %d): %v", size, err)
		}
		defer kit.BoundedClose(ic.Close)
		rtcpSrc := &kit.ByteSource{}
		rtcpReader := ic.BindRTCPReader(rtcpSrc)
		nStreams := rapid.IntRange(1, 3).Draw(t, "streams")
		streams := make([]*boundStream, nStreams)
		bind := func(s *boundStream) {
			s.sink = &kit.RTPSink{}
			if !disableCopy && rapid.IntRange(0, 2).Draw(t, "writerStampsExtension") == 0 { // (with DisableCopy the stored header is the one that travels on, by design)
				// the next writer adds a header extension to every header it is handed (a transport-cc header-extension interceptor below
				// the responder): what the responder stored is the packet as the application sent it
				s.sink.StampExtension = 9
			}
			s.writer = ic.BindLocalStream(s.info, s.sink)
			s.bound = true
			s.model = &streamModel{size: size, rtx: rtx && s.info.SSRCRetransmission != 0 && s.info.PayloadTypeRetransmission != 0,
				rtxSSRC: s.info.SSRCRetransmission, rtxPT: s.info.PayloadTypeRetransmission}
		}
		for i := range streams {
			info := &interceptor.StreamInfo{SSRC: uint32(5000 + i), PayloadType: 96} //nolint:gosec
			s := &boundStream{info: info, nack: i == 0 || rapid.IntRange(0, 3).Draw(t, "nackfb") != 0}
			if s.nack {
				info.RTCPFeedback = []interceptor.RTCPFeedback{{Type: "nack"}, {Type: "nack", Parameter: "pli"}}
			}
			if rtx {
				info.SSRCRetransmission, info.PayloadTypeRetransmission = uint32(6000+i), 97 //nolint:gosec
			}
			s.cursor = kit.U16Boundary().Draw(t, "startSeq")
			streams[i] = s
			bind(s)
		}
		h := kit.NewH().I(size).U(uint64(nStreams))
		// the responder starts one goroutine per NACK and has no long-lived ones: everything above this
		// baseline after an RTCP read is a retransmission still in progress
		base := kit.StableGoroutines()
		classes := map[string]bool{}
		answeredAfterEviction := false
		var log []string
		logf := func(f string, a ...any) {
			if len(log) < 60 {
				log = append(log, fmt.Sprintf(f, a...))
			}
		}
		actions := map[string]func(*rapid.T){
			"send": func(t *rapid.T) {
				s := streams[rapid.IntRange(0, nStreams-1).Draw(t, "stream")]
				if !s.bound {
					t.Skip("stream unbound")
				}
				var seq uint16
				switch rapid.IntRange(0, 9).Draw(t, "how") {
				case 0, 1, 2, 3, 4:
					s.cursor++
					seq = s.cursor
				case 5:
					s.cursor += uint16(rapid.IntRange(2, 6).Draw(t, "gap")) //nolint:gosec
					seq = s.cursor
				case 6: // late or duplicate near the window edge
					seq = s.cursor - uint16(rapid.OneOf(rapid.IntRange(0, size+2), rapid.IntRange(0, 4), rapid.IntRange(max(0, size-2), size+2)).Draw(t, "back")) //nolint:gosec
				case 7:
					seq = s.cursor - uint16(rapid.IntRange(0, 40000).Draw(t, "farback")) //nolint:gosec
				case 8:
					s.cursor += uint16(rapid.OneOf(rapid.IntRange(size-1, size+1), rapid.IntRange(100, 32767)).Draw(t, "jump")) //nolint:gosec
					seq = s.cursor
				default:
					seq = s.cursor // duplicate of the highest
				}
				hdr := kit.GenHeader(t, "h", kit.HeaderShape{NoPadding: true})
				hdr.SSRC, hdr.SequenceNumber, hdr.PayloadType = s.info.SSRC, seq, 96
				s.nextTS += 3000
				hdr.Timestamp = s.nextTS
				payload := genPayloadAndPadding(t, &hdr, s.model.rtx)
				h.U(1, uint64(s.info.SSRC), uint64(seq)).B(payload)
				c := content{hdr: hdr.Clone(), payload: append([]byte(nil), payload...)}
				before := s.sink.Len()
				var werr error
				hcopy := hdr.Clone()
				_, werr = s.writer.Write(&hcopy, payload, interceptor.Attributes{}) // a panic here is caught by rapid
				if werr != nil {
					t.Fatalf("Write(seq %d, payload %d bytes) failed: %v", seq, len(payload), werr)
				}
				if s.sink.Len() != before+1 {
					t.Fatalf("Write(seq %d) produced %d downstream writes, want 1", seq, s.sink.Len()-before)
				}
				// the caller owns header and payload again once Write has returned: reuse them (in place) as a sender with one buffer does
				// (DisableCopy is documented for callers that do not re-use buffers: there the harness leaves them alone)
				for i := range hcopy.CSRC {
					if disableCopy {
						break
					}
					hcopy.CSRC[i] ^= 0xA5A5A5A5
				}
				for _, id := range hcopy.GetExtensionIDs() {
					if disableCopy {
						break
					}
					ext := hcopy.GetExtension(id) // the slice the header holds, not a copy
					for j := range ext {
						ext[j] ^= 0xEE
					}
				}
				for i := range payload {
					if disableCopy {
						break
					}
					payload[i] ^= 0x5A
				}
				if s.nack {
					cl := s.model.send(c)
					classes[cl] = true
					logf("send ssrc=%d seq=%d len=%d pad=%v/%d (%s)", s.info.SSRC, seq, len(payload), hdr.Padding, hdr.PaddingSize, cl)
				}
			},
			"nack": func(t *rapid.T) {
				nPk := rapid.OneOf(rapid.Just(1), rapid.Just(1), rapid.IntRange(1, 2)).Draw(t, "nackPackets")
				var pkts []rtcp.Packet
				type req struct {
					s    *boundStream
					seqs []uint16
				}
				var reqs []req
				for k := 0; k < nPk; k++ {
					si := rapid.IntRange(0, nStreams).Draw(t, "target") // nStreams = an SSRC that was never bound
					var ssrc uint32 = 9999
					var s *boundStream
					if si < nStreams {
						s = streams[si]
						ssrc = s.info.SSRC
					}
					nPairs := rapid.IntRange(1, 3).Draw(t, "pairs")
					var pairs []rtcp.NackPair
					var seqs []uint16
					for p := 0; p < nPairs; p++ {
						var pid uint16
						if s != nil {
							pid = s.cursor - uint16(rapid.OneOf(rapid.IntRange(-2, 20), rapid.IntRange(max(0, size-3), size+3), rapid.IntRange(0, 2*size+40)).Draw(t, "pidBack")) //nolint:gosec
						} else {
							pid = rapid.Uint16().Draw(t, "pid")
						}
						blp := rapid.OneOf(rapid.Just(uint16(0)), rapid.Uint16(), rapid.Just(uint16(0xffff))).Draw(t, "blp")
						pair := rtcp.NackPair{PacketID: pid, LostPackets: rtcp.PacketBitmap(blp)}
						pairs = append(pairs, pair)
						seqs = append(seqs, pair.PacketList()...)
					}
					pkts = append(pkts, &rtcp.TransportLayerNack{SenderSSRC: 1, MediaSSRC: ssrc, Nacks: pairs})
					reqs = append(reqs, req{s: s, seqs: seqs})
					h.U(2, uint64(ssrc))
					for _, q := range seqs {
						h.U(uint64(q))
					}
				}
				if rapid.IntRange(0, 3).Draw(t, "withRR") == 0 {
					pkts = append([]rtcp.Packet{&rtcp.ReceiverReport{SSRC: 1}}, pkts...)
				}
				raw, err := rtcp.Marshal(pkts)
				if err != nil {
					t.Fatalf("harness: marshal: %v", err)
				}
				befores := make([]int, nStreams)
				for i, s := range streams {
					befores[i] = s.sink.Len()
				}
				// the transport may refuse some of the retransmissions: every requested packet is still handed to it exactly once
				for i, s := range streams {
					if rapid.IntRange(0, 3).Draw(t, "transportFails") == 0 {
						fa := map[int]error{}
						for j, nf := 0, rapid.IntRange(1, 3).Draw(t, "failCount"); j < nf; j++ {
							fa[befores[i]+rapid.IntRange(0, 6).Draw(t, "failAt")] = errTransportDown
						}
						s.sink.SetFailAt(fa)
						classes["retransmission-write-fails"] = true
					}
				}
				rtcpSrc.Push(raw)
				buf := kit.DirtyBuffer(1500)
				rn, _, rerr := rtcpReader.Read(buf, interceptor.Attributes{})
				if rerr != nil || rn != len(raw) {
					t.Fatalf("RTCP Read returned n=%d err=%v for a %d-byte compound", rn, rerr, len(raw))
				}
				if left := kit.WaitGoroutines(base, 10*time.Second); left > base {
					t.Fatalf("retransmission goroutines still running 10 s after the NACK (goroutines %d > %d)", left, base)
				}
				for _, s := range streams {
					s.sink.SetFailAt(nil)
				}
				// expected retransmissions per stream
				for i, s := range streams {
					var wantSeqs []uint16
					multi := 0
					for _, r := range reqs {
						if r.s == s && s.bound && s.nack {
							multi++
							for _, q := range r.seqs {
								if len(s.model.ring[q]) > 0 {
									wantSeqs = append(wantSeqs, q)
								}
							}
						}
					}
					got := s.sink.Calls()[befores[i]:]
					logf("nack ssrc=%d -> %d retransmissions (want %d)", s.info.SSRC, len(got), len(wantSeqs))
					if len(got) != len(wantSeqs) {
						t.Fatalf("NACK for ssrc %d: %d retransmissions written, want %d (requested numbers present in the window: %v; window (%d-%d, %d]); got %v",
							s.info.SSRC, len(got), len(wantSeqs), wantSeqs, s.model.high, size, s.model.high, descAll(got))
					}
					if multi > 1 { // two NACK packets for one stream are answered by two goroutines: order across them is free
						sort.Slice(wantSeqs, func(a, b int) bool { return wantSeqs[a] < wantSeqs[b] })
						sort.SliceStable(got, func(a, b int) bool { return origSeq(s.model, got[a]) < origSeq(s.model, got[b]) })
					}
					for k, g := range got {
						ok := false
						for _, c := range s.model.ring[wantSeqs[k]] {
							if s.model.admissible(g, c) {
								ok = true
							}
						}
						if !ok {
							c := s.model.ring[wantSeqs[k]][0]
							t.Fatalf("NACK for ssrc %d: retransmission %d should be number %d as sent %s (rtx=%v), got %s",
								s.info.SSRC, k, wantSeqs[k], describe(kit.SentRTP{Header: c.hdr, Payload: c.payload}), s.model.rtx, describe(g))
						}
					}
					if len(got) > 0 && s.model.evicted {
						answeredAfterEviction = true
					}
				}
			},
			"unbind": func(t *rapid.T) {
				s := streams[rapid.IntRange(0, nStreams-1).Draw(t, "stream")]
				if !s.bound {
					t.Skip("already unbound")
				}
				h.U(3, uint64(s.info.SSRC))
				if rapid.Bool().Draw(t, "bySSRCOnly") {
					// the stream is identified by its SSRC: the application need not keep the negotiated StreamInfo to remove it
					ic.UnbindLocalStream(&interceptor.StreamInfo{SSRC: s.info.SSRC})
					classes["unbind-by-ssrc-only"] = true
				} else {
					ic.UnbindLocalStream(s.info)
				}
				s.bound = false
				s.model = &streamModel{size: size}
				classes["unbind"] = true
				logf("unbind ssrc=%d", s.info.SSRC)
			},
			"rebind": func(t *rapid.T) {
				s := streams[rapid.IntRange(0, nStreams-1).Draw(t, "stream")]
				if s.bound {
					t.Skip("bound")
				}
				h.U(4, uint64(s.info.SSRC))
				bind(s)
				classes["rebind"] = true
				logf("rebind ssrc=%d", s.info.SSRC)
			},
		}
		for _, a := range []string{"send2", "send3", "send4", "send5", "send6"} {
			actions[a] = actions["send"]
		}
		actions["nack2"] = actions["nack"]
		t.Repeat(actions)
		var cl []string
		for c := range classes {
			cl = append(cl, c)
		}
		sort.Strings(cl)
		rec.Case(h.Sum(), answeredAfterEviction, append(cl, fmt.Sprintf("rtx=%v", rtx), fmt.Sprintf("size=2^%d", sizeExp)), func() any {
			return map[string]any{"size": size, "rtx": rtx, "disable_copy": disableCopy, "streams": nStreams, "ops": log}
		})
	})
}

func origSeq(m *streamModel, g kit.SentRTP) uint16 {
	if m.rtx && len(g.Payload) >= 2 {
		return uint16(g.Payload[0])<<8 | uint16(g.Payload[1])
	}

	return g.Header.SequenceNumber
}

func descAll(g []kit.SentRTP) []string {
	var out []string
	for _, x := range g[:min(len(g), 8)] {
		out = append(out, describe(x))
	}

	return out
}
