package c04

import (
	"fmt"
	"sync"
	"testing"
	"time"

	"github.com/pion/interceptor"
	"github.com/pion/interceptor/pkg/nack"
	"github.com/pion/interceptor/verifharness/kit"
	"github.com/pion/rtcp"
	"github.com/pion/rtp"
	"pgregory.net/rapid"
)

// TestResponderUnbindDuringAnswer: a NACK names a run of numbers; while the first retransmission is inside the (slow) next writer the stream is
// unbound. Numbers of an unbound stream produce nothing: once UnbindLocalStream has returned, at most the one retransmission whose packet had been
// looked up before may still be handed to the next writer - not the rest of the run. Every responder configuration, DisableCopy included.
func TestResponderUnbindDuringAnswer(t *testing.T) {
	rec := kit.NewRecorder("C04", "responder-unbind-during-answer",
		"history 2^3..2^8, RTX or not, copy or DisableCopy, 5..40 packets sent, one NACK for a run of 3..17 of them, UnbindLocalStream while the first retransmission is held in the next writer; "+
			"retransmissions handed over after Unbind returned <= 1; non-trivial = always; distinct by parameters")
	rapid.Check(t, func(t *rapid.T) {
		kit.Idle()
		sizeExp := rapid.IntRange(3, 8).Draw(t, "sizeExp")
		rtx := rapid.Bool().Draw(t, "rtx")
		disableCopy := !rtx && rapid.Bool().Draw(t, "disableCopy")
		opts := []nack.ResponderOption{nack.ResponderSize(uint16(1 << sizeExp))} //nolint:gosec
		if disableCopy {
			opts = append(opts, nack.DisableCopy())
		}
		f, err := nack.NewResponderInterceptor(opts...)
		if err != nil {
			t.Fatalf("factory: %v", err)
		}
		ic, err := f.NewInterceptor("")
		if err != nil {
			t.Fatalf("NewInterceptor: %v", err)
		}
		defer kit.BoundedClose(ic.Close)
		info := &interceptor.StreamInfo{SSRC: 77, RTCPFeedback: []interceptor.RTCPFeedback{{Type: "nack"}}}
		if rtx {
			info.SSRCRetransmission, info.PayloadTypeRetransmission = 177, 97
		}
		sent := rapid.IntRange(5, min(40, 1<<sizeExp)).Draw(t, "sent")
		run := rapid.IntRange(3, min(17, sent)).Draw(t, "run")
		start := kit.U16Boundary().Draw(t, "start")
		var mu sync.Mutex
		var retransAt []time.Time
		entered, release := make(chan struct{}, 1), make(chan struct{})
		sending := true
		sink := &kit.RTPSink{}
		sink.OnCall = func(kit.SentRTP) {
			mu.Lock()
			if sending {
				mu.Unlock()

				return
			}
			retransAt = append(retransAt, time.Now())
			first := len(retransAt) == 1
			mu.Unlock()
			if first {
				entered <- struct{}{}
				<-release
			}
		}
		w := ic.BindLocalStream(info, sink)
		src := &kit.ByteSource{}
		r := ic.BindRTCPReader(src)
		for i := 0; i < sent; i++ {
			hdr := rtp.Header{Version: 2, SSRC: 77, PayloadType: 96, SequenceNumber: start + uint16(i)} //nolint:gosec
			if _, err := w.Write(&hdr, []byte{byte(i), 1, 2}, nil); err != nil {
				t.Fatalf("Write: %v", err)
			}
		}
		mu.Lock()
		sending = false
		mu.Unlock()
		first := start + uint16(sent-run) //nolint:gosec
		raw, _ := rtcp.Marshal([]rtcp.Packet{&rtcp.TransportLayerNack{SenderSSRC: 2, MediaSSRC: 77, Nacks: []rtcp.NackPair{{PacketID: first, LostPackets: rtcp.PacketBitmap(1<<(run-1) - 1)}}}}) //nolint:gosec
		src.Push(raw)
		if _, _, err := r.Read(make([]byte, 1500), nil); err != nil {
			close(release)
			t.Fatalf("RTCP Read: %v", err)
		}
		select {
		case <-entered:
		case <-time.After(3 * kit.DefaultDeadline):
			close(release)
			t.Fatalf("no retransmission for a NACK of %d numbers sent a moment ago (history %d)", run, 1<<sizeExp)
		}
		if o := kit.Guard(0, func() { ic.UnbindLocalStream(info) }); !o.OK() {
			close(release)
			t.Fatalf("UnbindLocalStream while a retransmission is being written: %s", o)
		}
		unboundAt := time.Now()
		close(release)
		kit.Idle() // the NACK goroutine has finished
		mu.Lock()
		after := 0
		for _, at := range retransAt {
			if at.After(unboundAt) {
				after++
			}
		}
		total := len(retransAt)
		mu.Unlock()
		if after > 1 {
			t.Fatalf("history %d, rtx %v, DisableCopy %v: NACK for %d numbers, UnbindLocalStream during the first retransmission: %d further retransmissions were handed to the next writer after Unbind had returned (%d in all)",
				1<<sizeExp, rtx, disableCopy, run, after, total)
		}
		rec.Case(kit.NewH().I(sizeExp, sent, run).U(uint64(start)).S(fmt.Sprint(rtx, disableCopy)).Sum(), true, []string{fmt.Sprintf("disableCopy=%v", disableCopy)}, func() any {
			return map[string]any{"history": 1 << sizeExp, "rtx": rtx, "disable_copy": disableCopy, "sent": sent, "nack_run": run, "retransmissions": total, "after_unbind": after}
		})
	})
}
