package c04

import (
	"testing"
	"time"

	"github.com/pion/interceptor"
	"github.com/pion/interceptor/internal/rtpbuffer"
	"github.com/pion/interceptor/pkg/nack"
	"github.com/pion/interceptor/verifharness/kit"
	"github.com/pion/rtcp"
	"github.com/pion/rtp"
)

// Plain regression checks for the confirmed findings of C04 (see /verif/KNOWN_FINDINGS.json).

func TestRegressLateSendKeepsWindow(t *testing.T) {
	buf, _ := rtpbuffer.NewRTPBuffer(8)
	f := rtpbuffer.NewPacketFactoryCopy()
	add := func(seq uint16) {
		p, err := f.NewPacket(&rtp.Header{SequenceNumber: seq}, []byte{byte(seq)}, 0, 0)
		if err != nil {
			t.Fatal(err)
		}
		buf.Add(p)
	}
	for s := uint16(93); s <= 100; s++ {
		add(s)
	}
	add(84) // 16 behind the highest: outside the window of 8, same slot as 100
	if p := buf.Get(100); p == nil || p.Header().SequenceNumber != 100 {
		kit.WriteReplay("TestRegressLateSendKeepsWindow", []byte(`{"size":8,"sends":"93..100, 84","nack":100}`))
		t.Fatalf("size 8: after sending 93..100 and then 84, packet 100 is no longer retrievable")
	}
}

func TestRegressRTXFullSizePayload(t *testing.T) {
	f := rtpbuffer.NewPacketFactoryCopy()
	for _, n := range []int{1458, 1459, 1460} {
		p, err := f.NewPacket(&rtp.Header{SequenceNumber: 7}, make([]byte, n), 1234, 97)
		if err != nil {
			t.Fatalf("NewPacket(%d bytes): %v", n, err)
		}
		if len(p.Payload()) != n+2 {
			kit.WriteReplay("TestRegressRTXFullSizePayload", []byte(`{"rtx":true,"payload_len":1460}`))
			t.Fatalf("RTX form of a %d-byte payload has %d bytes, want %d", n, len(p.Payload()), n+2)
		}
	}
}

// A next writer that adds a header extension to the header it is handed (what the transport-cc header-extension interceptor does) must not
// change what the responder has stored: the second retransmission of a packet is handed over as the packet was sent, like the first.
func TestRegressRetransmissionHeaderIsACopy(t *testing.T) {
	f, _ := nack.NewResponderInterceptor()
	ic, _ := f.NewInterceptor("")
	defer kit.BoundedClose(ic.Close)
	src := &kit.ByteSource{}
	r := ic.BindRTCPReader(src)
	sink := &kit.RTPSink{StampExtension: 9}
	w := ic.BindLocalStream(&interceptor.StreamInfo{SSRC: 1, RTCPFeedback: []interceptor.RTCPFeedback{{Type: "nack"}}}, sink)
	if _, err := w.Write(&rtp.Header{Version: 2, SSRC: 1, SequenceNumber: 10}, []byte{1, 2, 3}, nil); err != nil {
		t.Fatal(err)
	}
	for k := 1; k <= 2; k++ {
		raw, _ := rtcp.Marshal([]rtcp.Packet{&rtcp.TransportLayerNack{SenderSSRC: 2, MediaSSRC: 1, Nacks: []rtcp.NackPair{{PacketID: 10}}}})
		src.Push(raw)
		if _, _, err := r.Read(make([]byte, 1500), nil); err != nil {
			t.Fatal(err)
		}
		if !kit.Eventually(5*time.Second, func() bool { return sink.Len() >= 1+k }) {
			t.Fatalf("retransmission %d was not written", k)
		}
	}
	for k, c := range sink.Calls() {
		if c.Header.Extension || len(c.Header.Extensions) != 0 {
			kit.WriteReplay("TestRegressRetransmissionHeaderIsACopy", []byte(`{"send":10,"next_writer":"sets header extension 9 on every header it is handed","nacks":[10,10]}`))
			t.Fatalf("call %d of the next writer (1, 2 = retransmissions of number 10): header carries extensions %v that the packet sent did not have", k, c.Header.Extensions)
		}
	}
}
