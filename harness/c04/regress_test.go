package c04

import (
	"testing"

	"github.com/pion/interceptor/internal/rtpbuffer"
	"github.com/pion/interceptor/verifharness/kit"
	"github.com/pion/rtp"
)

// Plain regression checks for the confirmed findings of C04 (see /verif/KNOWN_FINDINGS.json).

func TestRegressLateSendKeepsWindow(t *testing.T) {
	buf, _ := rtpbuffer.NewRTPBuffer(8)
	f := rtpbuffer.NewPacketFactoryCopy()
	add := func(seq uint16) {
		p, err := f.NewPacket(&rtp.Header{SequenceNumber: seq}, []byte{byte(seq)}, 0, 0)
		if err != nil {
			t.Fatal(err)
		}
		buf.Add(p)
	}
	for s := uint16(93); s <= 100; s++ {
		add(s)
	}
	add(84) // 16 behind the highest: outside the window of 8, same slot as 100
	if p := buf.Get(100); p == nil || p.Header().SequenceNumber != 100 {
		kit.WriteReplay("TestRegressLateSendKeepsWindow", []byte(`{"size":8,"sends":"93..100, 84","nack":100}`))
		t.Fatalf("size 8: after sending 93..100 and then 84, packet 100 is no longer retrievable")
	}
}

func TestRegressRTXFullSizePayload(t *testing.T) {
	f := rtpbuffer.NewPacketFactoryCopy()
	for _, n := range []int{1458, 1459, 1460} {
		p, err := f.NewPacket(&rtp.Header{SequenceNumber: 7}, make([]byte, n), 1234, 97)
		if err != nil {
			t.Fatalf("NewPacket(%d bytes): %v", n, err)
		}
		if len(p.Payload()) != n+2 {
			kit.WriteReplay("TestRegressRTXFullSizePayload", []byte(`{"rtx":true,"payload_len":1460}`))
			t.Fatalf("RTX form of a %d-byte payload has %d bytes, want %d", n, len(p.Payload()), n+2)
		}
	}
}
