package c09

import (
	"sort"
	"testing"
	"time"

	"github.com/pion/interceptor"
	"github.com/pion/interceptor/internal/cc"
	"github.com/pion/interceptor/pkg/rfc8888"
	"github.com/pion/interceptor/pkg/twcc"
	"github.com/pion/interceptor/verifharness/kit"
	"github.com/pion/rtcp"
	"github.com/pion/rtp"
	"pgregory.net/rapid"
)

type delivery struct {
	idx int   // index of the sent packet
	at  int64 // arrival, microseconds on the receiver clock
}

// genDeliveries: a lossy, reordered, jittered delivery of n packets sent 1 ms apart.
func genDeliveries(t *rapid.T, n int) []delivery {
	loss := rapid.SampledFrom([]int{0, 5, 30}).Draw(t, "lossPct")
	var ds []delivery
	for i := 0; i < n; i++ {
		if i == 0 {
			// the receiver's sequence unwrapper cannot represent numbers below the first one it sees (documented floor
			// at zero, C20): the first packet sent is delivered first, everything after it is free
			ds = append(ds, delivery{idx: 0, at: 9_000})

			continue
		}
		if rapid.IntRange(1, 100).Draw(t, "lost") <= loss {
			continue
		}
		jitter := rapid.OneOf(rapid.Int64Range(0, 300), rapid.Int64Range(0, 30_000)).Draw(t, "jitterUS")
		ds = append(ds, delivery{idx: i, at: 10_000 + int64(i)*1000 + jitter})
		if rapid.IntRange(0, 40).Draw(t, "dup") == 0 {
			ds = append(ds, delivery{idx: i, at: 10_000 + int64(i)*1000 + jitter + 700})
		}
	}
	sort.SliceStable(ds, func(a, b int) bool { return ds[a].at < ds[b].at })

	return ds
}

// TestClosedLoopTWCC: every feedback the library's own TWCC recorder emits for a generated delivery is decoded
// by the adapter; each acknowledgement must describe what really happened to that packet.
func TestClosedLoopTWCC(t *testing.T) {
	rec := kit.NewRecorder("C09", "closed-loop-twcc",
		"n packets (up to 700, more than the history holds) sent with consecutive transport numbers, delivered with loss, jitter, reordering and duplicates to the "+
			"library's twcc.Recorder; each BuildFeedbackPacket output is fed to the FeedbackAdapter and every acknowledgement compared with the delivery; "+
			"non-trivial = loss or reordering and >= 2 feedbacks; distinct by delivery")
	rapid.Check(t, func(t *rapid.T) {
		n := rapid.OneOf(rapid.IntRange(5, 120), rapid.IntRange(200, 700)).Draw(t, "n")
		start := kit.U16Boundary().Draw(t, "start")
		ad := cc.NewFeedbackAdapter()
		type sp struct {
			size int
			dep  time.Time
		}
		sent := make([]sp, n)
		for i := 0; i < n; i++ {
			hdr := rtp.Header{Version: 2, SSRC: 800, SequenceNumber: uint16(i)} //nolint:gosec
			ext, _ := (rtp.TransportCCExtension{TransportSequence: start + uint16(i)}).Marshal() //nolint:gosec
			_ = hdr.SetExtension(twccExtID, ext)
			dep := t0.Add(time.Duration(i) * time.Millisecond)
			if err := ad.OnSent(dep, &hdr, 100+i%50, interceptor.Attributes{cc.TwccExtensionAttributesKey: uint8(twccExtID)}); err != nil {
				t.Fatalf("OnSent: %v", err)
			}
			sent[i] = sp{size: hdr.MarshalSize() + 100 + i%50, dep: dep}
		}
		ds := genDeliveries(t, n)
		r := twcc.NewRecorder(1)
		firstArrival := map[int]int64{}
		h := kit.NewH().I(n).U(uint64(start))
		feedbacks, reordered := 0, false
		lastIdx := -1
		every := rapid.IntRange(3, 80).Draw(t, "feedbackEvery")
		check := func() {
			pkts := r.BuildFeedbackPacket()
			for _, p := range pkts {
				fb, ok := p.(*rtcp.TransportLayerCC)
				if !ok {
					t.Fatalf("recorder produced a %T", p)
				}
				feedbacks++
				acks, err := ad.OnTransportCCFeedback(t0, fb)
				if err != nil {
					t.Fatalf("adapter rejects the library's own feedback: %v", err)
				}
				for _, a := range acks {
					if isZeroAck(a) {
						if kit.Known("C09-placeholder-acks") {
							rec.KnownHit("C09-placeholder-acks")

							continue
						}
						t.Fatalf("zero-valued acknowledgement")
					}
					i := int(a.SequenceNumber - start)
					if i < 0 || i >= n || a.SSRC != 0 {
						t.Fatalf("acknowledgement %+v names no sent packet", a)
					}
					if i < n-250 {
						t.Fatalf("acknowledgement for packet %d which left the 250-packet history", i)
					}
					if a.Size != sent[i].size || !a.Departure.Equal(sent[i].dep) {
						t.Fatalf("packet %d: acknowledgement carries size %d departure %v, sent %d %v", i, a.Size, a.Departure, sent[i].size, sent[i].dep)
					}
					inRange := uint16(a.SequenceNumber-fb.BaseSequenceNumber) < fb.PacketStatusCount
					if !inRange {
						if a.Arrival.IsZero() && kit.Known("C09-symbols-past-status-count") {
							rec.KnownHit("C09-symbols-past-status-count")

							continue
						}
						t.Fatalf("packet %d (number %d) is outside the feedback's range [%d, +%d) but acknowledged", i, a.SequenceNumber, fb.BaseSequenceNumber, fb.PacketStatusCount)
					}
					at, delivered := firstArrival[i]
					if i < ds[0].idx {
						// older than the very first packet the receiver saw: the receiver's unwrapper cannot go below its
						// first number (documented floor at zero, C20), so such packets are outside the closed-loop oracle
						continue
					}
					if a.Arrival.IsZero() {
						if delivered {
							t.Fatalf("packet %d was delivered at %d us before this feedback but is acknowledged as not arrived", i, at)
						}

						continue
					}
					if !delivered {
						t.Fatalf("packet %d was never delivered but is acknowledged as arrived at %v", i, a.Arrival)
					}
					got := a.Arrival.Sub(time.Time{}).Microseconds()
					if d := got - at; d > 250 || d < -250 {
						t.Fatalf("packet %d arrived at %d us, acknowledgement says %d us", i, at, got)
					}
				}
			}
		}
		for k, d := range ds {
			if d.idx < lastIdx {
				reordered = true
			}
			lastIdx = max(lastIdx, d.idx)
			h.I(d.idx).U(uint64(d.at))
			r.Record(800, start+uint16(d.idx), d.at) //nolint:gosec
			if _, seen := firstArrival[d.idx]; !seen {
				firstArrival[d.idx] = d.at
			}
			if (k+1)%every == 0 {
				check()
			}
		}
		check()
		rec.Case(h.Sum(), feedbacks >= 2 && (reordered || len(firstArrival) < n), nil, func() any {
			return map[string]any{"packets": n, "delivered": len(firstArrival), "feedback_packets": feedbacks, "reordered": reordered}
		})
	})
}

// TestClosedLoopRFC8888: the same with the library's rfc8888.Recorder.
func TestClosedLoopRFC8888(t *testing.T) {
	rec := kit.NewRecorder("C09", "closed-loop-rfc8888",
		"n packets on 1-2 SSRCs delivered with loss, jitter, reordering and duplicates to the library's rfc8888.Recorder; every report is fed to the FeedbackAdapter "+
			"and each acknowledgement compared with the delivery; non-trivial = loss or reordering and >= 2 reports; distinct by delivery")
	rapid.Check(t, func(t *rapid.T) {
		n := rapid.IntRange(5, 240).Draw(t, "n")
		start := kit.U16Boundary().Draw(t, "start")
		ad := cc.NewFeedbackAdapter()
		type sp struct {
			size int
			dep  time.Time
		}
		sent := make([]sp, n)
		for i := 0; i < n; i++ {
			hdr := rtp.Header{Version: 2, SSRC: 900, SequenceNumber: start + uint16(i)} //nolint:gosec
			dep := t0.Add(time.Duration(i) * time.Millisecond)
			_ = ad.OnSent(dep, &hdr, 100+i%50, interceptor.Attributes{})
			sent[i] = sp{size: 100 + i%50, dep: dep}
		}
		ds := genDeliveries(t, n)
		r := rfc8888.NewRecorder()
		rxEpoch := time.Date(2024, 3, 1, 12, 0, 0, 0, time.UTC)
		firstArrival := map[int]int64{}
		reports, reordered := 0, false
		lastIdx := -1
		h := kit.NewH().I(n).U(uint64(start))
		every := rapid.IntRange(3, 80).Draw(t, "reportEvery")
		check := func(nowUS int64) {
			now := rxEpoch.Add(time.Duration(nowUS) * time.Microsecond)
			rep := r.BuildReport(now, 1200)
			reports++
			acks := ad.OnRFC8888Feedback(t0, rep)
			ref := ntpToTime(uint64(rep.ReportTimestamp) << 16)
			for _, a := range acks {
				i := int(a.SequenceNumber - start)
				if a.SSRC != 900 || i < 0 || i >= n {
					t.Fatalf("acknowledgement %+v names no sent packet", a)
				}
				if a.Size != sent[i].size || !a.Departure.Equal(sent[i].dep) {
					t.Fatalf("packet %d: acknowledgement carries size %d departure %v, sent %d %v", i, a.Size, a.Departure, sent[i].size, sent[i].dep)
				}
				at, delivered := firstArrival[i]
				if i < ds[0].idx {
					continue // older than the first packet the receiver saw (unwrapper floor at zero, see the TWCC loop)
				}
				if a.Arrival.IsZero() {
					if delivered {
						// it may have been acknowledged in a gap-free prefix of an earlier report: then it is not in this one at all
						t.Fatalf("packet %d was delivered at %d us but the report-derived acknowledgement says not arrived", i, at)
					}

					continue
				}
				if !delivered {
					t.Fatalf("packet %d was never delivered but is acknowledged as arrived", i)
				}
				// report time - arrival as the acknowledgement has it vs as it happened (resolution 1/1024 s + 1/65536 s)
				gotOff := ref.Sub(a.Arrival)
				wantOff := time.Duration(nowUS-at) * time.Microsecond
				if d := gotOff - wantOff; d > time.Second/1024+time.Second/65536+2*time.Microsecond || d < -(time.Second/1024+time.Second/65536+2*time.Microsecond) {
					t.Fatalf("packet %d arrived %v before the report, acknowledgement says %v", i, wantOff, gotOff)
				}
			}
		}
		var clock int64
		for k, d := range ds {
			if d.idx < lastIdx {
				reordered = true
			}
			lastIdx = max(lastIdx, d.idx)
			h.I(d.idx).U(uint64(d.at))
			clock = d.at
			r.AddPacket(rxEpoch.Add(time.Duration(d.at)*time.Microsecond), 900, start+uint16(d.idx), 0) //nolint:gosec
			if _, seen := firstArrival[d.idx]; !seen {
				firstArrival[d.idx] = d.at
			}
			if (k+1)%every == 0 {
				check(clock + 100)
			}
		}
		check(clock + 5000)
		rec.Case(h.Sum(), reports >= 2 && (reordered || len(firstArrival) < n), nil, func() any {
			return map[string]any{"packets": n, "delivered": len(firstArrival), "reports": reports, "reordered": reordered}
		})
	})
}
