package c09

import (
	"fmt"
	"testing"
	"time"

	"github.com/pion/interceptor"
	"github.com/pion/interceptor/pkg/rtpfb"
	"github.com/pion/interceptor/verifharness/kit"
	"github.com/pion/rtcp"
	"github.com/pion/rtp"
	"pgregory.net/rapid"
)

const transportCCURI = "http://www.ietf.org/id/draft-holmer-rmcat-transport-wide-cc-extensions-01"

type fbSent struct {
	ssrc     uint32
	rtpSeq   uint16
	twcc     bool
	twccSeq  uint16
	size     int
	before   time.Time
	after    time.Time
	reported bool
}

type mention struct {
	arrived bool
	arrival time.Time
	tol     time.Duration
	ecn     rtcp.ECN
	noTime  bool // arrival not asserted (offset 0x1FFE/0x1FFF)
}

func ntp32Of(t time.Time) uint32 {
	sec := uint64(t.Unix()) + 2208988800 //nolint:gosec
	frac := uint64(t.Nanosecond()) * 65536 / 1_000_000_000

	return uint32(sec&0xffff)<<16 | uint32(frac) //nolint:gosec
}

// TestRtpfbReports drives rtpfb.Interceptor through BindLocalStream + BindRTCPReader with feedback as bytes.
func TestRtpfbReports(t *testing.T) {
	rec := kit.NewRecorder("C09", "rtpfb-interceptor",
		"sends on a TWCC and a non-TWCC stream through rtpfb.Interceptor, then TWCC (symbolic ground truth, generated chunk encodings) and RFC 8888 feedback as "+
			"marshalled bytes through its RTCP reader; every PacketReport of every Report is matched against the send log and the latest feedback about that packet; "+
			"non-trivial = >= 2 reports and a feedback covering an unknown number before a known received one; distinct by history")
	rapid.Check(t, func(t *rapid.T) {
		f, err := rtpfb.NewInterceptor()
		if err != nil {
			t.Fatalf("factory: %v", err)
		}
		ic, err := f.NewInterceptor("")
		if err != nil {
			t.Fatalf("NewInterceptor: %v", err)
		}
		defer kit.BoundedClose(ic.Close)
		twccW := ic.BindLocalStream(&interceptor.StreamInfo{SSRC: 800, RTPHeaderExtensions: []interceptor.RTPHeaderExtension{{URI: transportCCURI, ID: twccExtID}}}, &kit.RTPSink{})
		ccfbW := ic.BindLocalStream(&interceptor.StreamInfo{SSRC: 900}, &kit.RTPSink{})
		src := &kit.ByteSource{}
		reader := ic.BindRTCPReader(src)
		var sent []*fbSent
		twccIdx := map[uint16]int{}
		rtpIdx := map[uint16]int{}
		mentions := map[int]mention{}
		twccNext := kit.U16Boundary().Draw(t, "twccStart")
		rtpNext := kit.U16Boundary().Draw(t, "rtpStart")
		lastReported := -1
		maxMentioned := -1 // newest sent packet that any feedback so far has declared a status for
		reports := 0
		nontrivial := false
		h := kit.NewH()
		send := func(t *rapid.T) {
			hdr := kit.GenHeader(t, "h", kit.HeaderShape{NoExtensions: true})
			payload := kit.Payload(t, "p", 1200)
			s := &fbSent{}
			if kind := rapid.IntRange(0, 8).Draw(t, "twcc"); kind == 0 {
				// a packet on the transport-cc stream that does not carry the extension: recorded once, by SSRC and RTP number
				hdr.SSRC, hdr.SequenceNumber = 800, rapid.Uint16().Draw(t, "rtpseq")
				s.ssrc, s.rtpSeq = 800, hdr.SequenceNumber
				s.size = hdr.MarshalSize() + len(payload)
				s.before = time.Now()
				_, err = twccW.Write(&hdr, payload, nil)
			} else if kind <= 4 {
				hdr.SSRC, hdr.SequenceNumber = 800, rapid.Uint16().Draw(t, "rtpseq")
				ext, _ := (rtp.TransportCCExtension{TransportSequence: twccNext}).Marshal()
				_ = hdr.SetExtension(twccExtID, ext)
				s.ssrc, s.rtpSeq, s.twcc, s.twccSeq = 800, hdr.SequenceNumber, true, twccNext
				twccIdx[twccNext] = len(sent)
				twccNext++
				s.size = hdr.MarshalSize() + len(payload)
				s.before = time.Now()
				_, err = twccW.Write(&hdr, payload, nil)
			} else {
				hdr.SSRC, hdr.SequenceNumber = 900, rtpNext
				s.ssrc, s.rtpSeq = 900, rtpNext
				rtpIdx[rtpNext] = len(sent)
				rtpNext++
				s.size = hdr.MarshalSize() + len(payload)
				s.before = time.Now()
				_, err = ccfbW.Write(&hdr, payload, nil)
			}
			s.after = time.Now()
			if err != nil {
				t.Fatalf("Write: %v", err)
			}
			h.U(1, uint64(s.ssrc), uint64(s.rtpSeq)).I(s.size)
			sent = append(sent, s)
		}
		feedback := func(t *rapid.T) {
			var pkts []rtcp.Packet
			sawUnknown, unknownThenKnown := false, false
			note := func(idx int, ok bool, m mention) {
				if !ok {
					sawUnknown = true

					return
				}
				if sawUnknown && m.arrived {
					unknownThenKnown = true
				}
				if !sent[idx].reported {
					mentions[idx] = m
				}
				maxMentioned = max(maxMentioned, idx)
			}
			if rapid.Bool().Draw(t, "twccFb") {
				back := rapid.OneOf(rapid.IntRange(-3, 30), rapid.IntRange(0, 120)).Draw(t, "back")
				base := twccNext - uint16(back) //nolint:gosec
				count := rapid.IntRange(1, 40).Draw(t, "count")
				spec := kit.TWCCSpec{Base: base, RefTime: rapid.Uint32Range(1, 1<<24-1).Draw(t, "ref"), FbCount: uint8(reports)} //nolint:gosec
				at := time.Time{}.Add(time.Duration(spec.RefTime) * 64 * time.Millisecond)
				for i := 0; i < count; i++ {
					st := kit.TWCCStatus{Received: i == 0 || rapid.IntRange(0, 3).Draw(t, "rx") != 0} // see kit.EncodeTWCC: one received status keeps the bytes parseable
					if st.Received {
						st.Delta250 = rapid.OneOf(rapid.Int64Range(0, 255), rapid.Int64Range(-2000, 2000)).Draw(t, "delta")
						at = at.Add(time.Duration(st.Delta250) * 250 * time.Microsecond)
					}
					spec.Statuses = append(spec.Statuses, st)
					idx, ok := twccIdx[base+uint16(i)] //nolint:gosec
					m := mention{arrived: st.Received}
					if st.Received {
						m.arrival = at
					}
					note(idx, ok, m)
				}
				// a final run-length chunk may run past the status count (with receive deltas for the declared statuses only):
				// what lies beyond the count is not declared
				overshoot := 0
				if rapid.IntRange(0, 3).Draw(t, "overshoot") == 0 {
					overshoot = rapid.IntRange(1, 20).Draw(t, "overshootBy")
					spec.OvershootAnySymbol = true
				}
				pkts = append(pkts, kit.EncodeTWCC(t, spec, overshoot))
				h.U(2, uint64(base)).I(count)
			} else {
				now := time.Now()
				rep := &rtcp.CCFeedbackReport{SenderSSRC: 1, ReportTimestamp: ntp32Of(now)}
				ref := now.Truncate(time.Second).Add(time.Duration(uint64(now.Nanosecond())*65536/1_000_000_000) * time.Second / 65536)
				begin := rtpNext - uint16(rapid.OneOf(rapid.IntRange(-3, 30), rapid.IntRange(0, 120)).Draw(t, "back")) //nolint:gosec
				blk := rtcp.CCFeedbackReportBlock{MediaSSRC: 900, BeginSequence: begin}
				for i, n := 0, rapid.IntRange(1, 40).Draw(t, "n"); i < n; i++ {
					mb := rtcp.CCFeedbackMetricBlock{Received: rapid.IntRange(0, 3).Draw(t, "rx") != 0}
					m := mention{arrived: mb.Received, tol: time.Second/65536 + 2*time.Microsecond}
					if mb.Received {
						mb.ECN = rtcp.ECN(rapid.IntRange(0, 3).Draw(t, "ecn")) //nolint:gosec
						mb.ArrivalTimeOffset = rapid.OneOf(rapid.Uint16Range(0, 0x1FFD), rapid.Uint16Range(0, 50), rapid.SampledFrom([]uint16{0x1FFE, 0x1FFF})).Draw(t, "ato")
						m.ecn = mb.ECN
						m.arrival = ref.Add(-time.Duration(mb.ArrivalTimeOffset) * time.Second / 1024)
						m.noTime = mb.ArrivalTimeOffset >= 0x1FFE
					}
					blk.MetricBlocks = append(blk.MetricBlocks, mb)
					idx, ok := rtpIdx[begin+uint16(i)] //nolint:gosec
					note(idx, ok, m)
				}
				rep.ReportBlocks = []rtcp.CCFeedbackReportBlock{blk}
				pkts = append(pkts, rep)
				h.U(3, uint64(begin)).I(len(blk.MetricBlocks))
			}
			raw, err := rtcp.Marshal(pkts)
			if err != nil {
				t.Fatalf("harness: feedback does not marshal: %v", err)
			}
			src.Push(raw)
			buf := kit.DirtyBuffer(1500 + len(raw))
			var attr interceptor.Attributes
			var rn int
			var rerr error
			if o := kit.Guard(0, func() { rn, attr, rerr = reader.Read(buf, interceptor.Attributes{}) }); !o.OK() {
				t.Fatalf("RTCP Read: %s", o)
			}
			if rerr != nil || rn != len(raw) {
				t.Fatalf("RTCP Read: n=%d err=%v for %d bytes", rn, rerr, len(raw))
			}
			v := attr.Get(rtpfb.CCFBAttributesKey)
			var prs []rtpfb.PacketReport
			if v != nil {
				rep, ok := v.(rtpfb.Report)
				if !ok {
					t.Fatalf("attribute holds a %T", v)
				}
				prs = rep.PacketReports
				reports++
			}
			inThis := map[int]bool{}
			for _, pr := range prs {
				i := int(pr.SequenceNumber) //nolint:gosec
				if i <= lastReported {
					t.Fatalf("packet #%d reported after packet #%d: each sent packet at most once, in send order", i, lastReported)
				}
				lastReported = i
				if i >= len(sent) {
					t.Fatalf("report names packet #%d, only %d were sent", i, len(sent))
				}
				if i > maxMentioned {
					t.Fatalf("report names packet #%d (ssrc %d rtp seq %d twcc %d), which was sent after every packet that any feedback has declared a status for (newest declared: #%d): "+
						"numbers outside the range a feedback declares must not be reported", i, pr.SSRC, pr.RTPSequenceNumber, pr.TWCCSequenceNumber, maxMentioned)
				}
				s := sent[i]
				s.reported = true
				inThis[i] = true
				if pr.SSRC != s.ssrc || pr.RTPSequenceNumber != s.rtpSeq || pr.Size != s.size || (s.twcc && pr.TWCCSequenceNumber != s.twccSeq) {
					t.Fatalf("report for packet #%d: ssrc %d rtp seq %d twcc %d size %d; sent ssrc %d rtp seq %d twcc %d size %d", i, pr.SSRC, pr.RTPSequenceNumber,
						pr.TWCCSequenceNumber, pr.Size, s.ssrc, s.rtpSeq, s.twccSeq, s.size)
				}
				if pr.Departure.Before(s.before) || pr.Departure.After(s.after) {
					t.Fatalf("report for packet #%d: departure %v not within the Write call [%v, %v]", i, pr.Departure, s.before, s.after)
				}
				m, mentioned := mentions[i]
				if !mentioned {
					if pr.Arrived {
						t.Fatalf("packet #%d was never covered by any feedback but is reported as arrived", i)
					}

					continue
				}
				if pr.Arrived != m.arrived {
					t.Fatalf("packet #%d: latest feedback says arrived=%v, report says %v", i, m.arrived, pr.Arrived)
				}
				if m.arrived && !m.noTime {
					if d := pr.Arrival.Sub(m.arrival); d > m.tol || d < -m.tol {
						t.Fatalf("packet #%d: feedback encodes arrival %v, report carries %v", i, m.arrival, pr.Arrival)
					}
				}
				if m.arrived && pr.ECN != m.ecn {
					t.Fatalf("packet #%d: feedback ECN %d, report ECN %d", i, m.ecn, pr.ECN)
				}
			}
			for i, m := range mentions {
				if m.arrived && !sent[i].reported {
					t.Fatalf("packet #%d was acknowledged as arrived but is in no report", i)
				}
			}
			if unknownThenKnown && reports >= 2 {
				nontrivial = true
			}
		}
		actions := map[string]func(*rapid.T){"send": send, "send2": send, "send3": send, "send4": send, "feedback": feedback}
		t.Repeat(actions)
		rec.Case(h.Sum(), nontrivial, []string{fmt.Sprintf("reports>=2=%v", reports >= 2)}, func() any {
			return map[string]any{"packets_sent": len(sent), "reports": reports, "last_reported_packet": lastReported}
		})
	})
}
