package c09

import (
	"testing"
	"time"

	"github.com/pion/interceptor"
	"github.com/pion/interceptor/internal/cc"
	"github.com/pion/interceptor/pkg/rtpfb"
	"github.com/pion/interceptor/verifharness/kit"
	"github.com/pion/rtcp"
	"github.com/pion/rtp"
)

// TestRegressDeltaConsumedForUnknownPacket: numbers 1 and 2 sent; feedback 0,1,2 received with deltas 1, 2, 4 ms:
// number 2 arrived at 7 ms whether or not number 0 is in the history.
func TestRegressDeltaConsumedForUnknownPacket(t *testing.T) {
	ad := cc.NewFeedbackAdapter()
	for _, n := range []uint16{1, 2} {
		hdr := rtp.Header{Version: 2}
		ext, _ := (rtp.TransportCCExtension{TransportSequence: n}).Marshal()
		_ = hdr.SetExtension(twccExtID, ext)
		_ = ad.OnSent(t0, &hdr, 100, interceptor.Attributes{cc.TwccExtensionAttributesKey: uint8(twccExtID)})
	}
	fb := &rtcp.TransportLayerCC{BaseSequenceNumber: 0, PacketStatusCount: 3, ReferenceTime: 0,
		PacketChunks: []rtcp.PacketStatusChunk{&rtcp.RunLengthChunk{Type: rtcp.TypeTCCRunLengthChunk, PacketStatusSymbol: rtcp.TypeTCCPacketReceivedSmallDelta, RunLength: 3}},
		RecvDeltas:   []*rtcp.RecvDelta{{Type: rtcp.TypeTCCPacketReceivedSmallDelta, Delta: 1000}, {Type: rtcp.TypeTCCPacketReceivedSmallDelta, Delta: 2000}, {Type: rtcp.TypeTCCPacketReceivedSmallDelta, Delta: 4000}}}
	acks, err := ad.OnTransportCCFeedback(t0, fb)
	if err != nil {
		t.Fatal(err)
	}
	for _, a := range acks {
		if a.SequenceNumber == 2 && a.Size != 0 {
			if got := a.Arrival.Sub(time.Time{}); got != 7*time.Millisecond {
				kit.WriteReplay("TestRegressDeltaConsumedForUnknownPacket", []byte(`{"sent":[1,2],"feedback":{"base":0,"deltas_ms":[1,2,4]}}`))
				t.Fatalf("number 2 arrived 7 ms after the reference time, acknowledgement says %v", got)
			}

			return
		}
	}
	t.Fatalf("number 2 not acknowledged")
}

// TestRegressFirstPacketNotReportedBeforeAnyAck: one packet sent on a non-TWCC stream, then an RFC 8888 feedback that only
// covers a sequence number that was never sent: the report must not name the packet (it is outside the declared range),
// and a later feedback that acknowledges it must be reported.
func TestRegressFirstPacketNotReportedBeforeAnyAck(t *testing.T) {
	f, _ := rtpfb.NewInterceptor()
	ic, _ := f.NewInterceptor("")
	defer kit.BoundedClose(ic.Close)
	w := ic.BindLocalStream(&interceptor.StreamInfo{SSRC: 900}, &kit.RTPSink{})
	src := &kit.ByteSource{}
	reader := ic.BindRTCPReader(src)
	if _, err := w.Write(&rtp.Header{Version: 2, SSRC: 900, SequenceNumber: 0}, []byte{1}, nil); err != nil {
		t.Fatal(err)
	}
	read := func(begin uint16, received bool) []rtpfb.PacketReport {
		raw, _ := rtcp.Marshal([]rtcp.Packet{&rtcp.CCFeedbackReport{SenderSSRC: 1, ReportTimestamp: 1 << 16, ReportBlocks: []rtcp.CCFeedbackReportBlock{{
			MediaSSRC: 900, BeginSequence: begin, MetricBlocks: []rtcp.CCFeedbackMetricBlock{{Received: received, ArrivalTimeOffset: 1}},
		}}}})
		src.Push(raw)
		_, attr, err := reader.Read(make([]byte, 1500), interceptor.Attributes{})
		if err != nil {
			t.Fatal(err)
		}
		if v := attr.Get(rtpfb.CCFBAttributesKey); v != nil {
			return v.(rtpfb.Report).PacketReports //nolint:forcetypeassert
		}

		return nil
	}
	fail := func(msg string) {
		kit.WriteReplay("TestRegressFirstPacketNotReportedBeforeAnyAck", []byte(`{"sent":[{"ssrc":900,"seq":0}],"feedback":[{"begin":1,"received":[false]},{"begin":0,"received":[true]}]}`))
		t.Fatal(msg)
	}
	if prs := read(1, false); len(prs) != 0 {
		fail("a feedback declaring only the never-sent number 1 produced a report naming the packet with number 0")
	}
	prs := read(0, true)
	if len(prs) != 1 || !prs[0].Arrived || prs[0].RTPSequenceNumber != 0 {
		fail("the feedback acknowledging number 0 as received did not produce a report saying so")
	}
}
