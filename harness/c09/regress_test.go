package c09

import (
	"testing"
	"time"

	"github.com/pion/interceptor"
	"github.com/pion/interceptor/internal/cc"
	"github.com/pion/interceptor/verifharness/kit"
	"github.com/pion/rtcp"
	"github.com/pion/rtp"
)

// TestRegressDeltaConsumedForUnknownPacket: numbers 1 and 2 sent; feedback 0,1,2 received with deltas 1, 2, 4 ms:
// number 2 arrived at 7 ms whether or not number 0 is in the history.
func TestRegressDeltaConsumedForUnknownPacket(t *testing.T) {
	ad := cc.NewFeedbackAdapter()
	for _, n := range []uint16{1, 2} {
		hdr := rtp.Header{Version: 2}
		ext, _ := (rtp.TransportCCExtension{TransportSequence: n}).Marshal()
		_ = hdr.SetExtension(twccExtID, ext)
		_ = ad.OnSent(t0, &hdr, 100, interceptor.Attributes{cc.TwccExtensionAttributesKey: uint8(twccExtID)})
	}
	fb := &rtcp.TransportLayerCC{BaseSequenceNumber: 0, PacketStatusCount: 3, ReferenceTime: 0,
		PacketChunks: []rtcp.PacketStatusChunk{&rtcp.RunLengthChunk{Type: rtcp.TypeTCCRunLengthChunk, PacketStatusSymbol: rtcp.TypeTCCPacketReceivedSmallDelta, RunLength: 3}},
		RecvDeltas: []*rtcp.RecvDelta{{Type: rtcp.TypeTCCPacketReceivedSmallDelta, Delta: 1000}, {Type: rtcp.TypeTCCPacketReceivedSmallDelta, Delta: 2000}, {Type: rtcp.TypeTCCPacketReceivedSmallDelta, Delta: 4000}}}
	acks, err := ad.OnTransportCCFeedback(t0, fb)
	if err != nil {
		t.Fatal(err)
	}
	for _, a := range acks {
		if a.SequenceNumber == 2 && a.Size != 0 {
			if got := a.Arrival.Sub(time.Time{}); got != 7*time.Millisecond {
				kit.WriteReplay("TestRegressDeltaConsumedForUnknownPacket", []byte(`{"sent":[1,2],"feedback":{"base":0,"deltas_ms":[1,2,4]}}`))
				t.Fatalf("number 2 arrived 7 ms after the reference time, acknowledgement says %v", got)
			}

			return
		}
	}
	t.Fatalf("number 2 not acknowledged")
}
