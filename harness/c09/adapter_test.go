package c09

import (
	"fmt"
	"sort"
	"testing"
	"time"

	"github.com/pion/interceptor"
	"github.com/pion/interceptor/internal/cc"
	"github.com/pion/interceptor/verifharness/kit"
	"github.com/pion/rtcp"
	"github.com/pion/rtp"
	"pgregory.net/rapid"
)

type key struct {
	twcc bool
	ssrc uint32
	seq  uint16
}

type sentPkt struct {
	k         key
	size      int
	departure time.Time
}

// historyModel: the 250 most recently added keys (re-adding a key refreshes it).
type historyModel struct {
	order []key
	items map[key]sentPkt
}

func (h *historyModel) add(p sentPkt) {
	if _, ok := h.items[p.k]; ok {
		for i, k := range h.order {
			if k == p.k {
				h.order = append(h.order[:i], h.order[i+1:]...)

				break
			}
		}
	}
	h.order = append(h.order, p.k)
	h.items[p.k] = p
	if len(h.order) > 250 {
		delete(h.items, h.order[0])
		h.order = h.order[1:]
	}
}

var t0 = time.Date(2024, 3, 1, 12, 0, 0, 0, time.UTC)

const twccExtID = 5

func isZeroAck(a cc.Acknowledgment) bool {
	return a.SequenceNumber == 0 && a.SSRC == 0 && a.Size == 0 && a.Departure.IsZero() && a.Arrival.IsZero() && a.ECN == 0
}

func TestAdapterAttributesFeedback(t *testing.T) {
	rec := kit.NewRecorder("C09", "feedback-adapter-symbolic",
		"send histories over TWCC and non-TWCC streams (wrap, > 250 packets in flight) and TWCC feedback built from a symbolic ground truth with generated chunk encodings "+
			"(run-length, 1-bit, 2-bit, padded final chunk, run length past the status count) or RFC 8888 blocks, covering known, evicted and never-sent numbers; "+
			"non-trivial = a feedback whose range has a packet absent from the history followed by a present received one; distinct by history")
	rapid.Check(t, func(t *rapid.T) {
		ad := cc.NewFeedbackAdapter()
		hist := &historyModel{items: map[key]sentPkt{}}
		twccNext := kit.U16Boundary().Draw(t, "twccStart")
		rtpNext := map[uint32]uint16{900: kit.U16Boundary().Draw(t, "rtpStart1"), 901: kit.U16Boundary().Draw(t, "rtpStart2")}
		now := t0
		h := kit.NewH()
		nontrivial := false
		classes := map[string]bool{}
		var log []string
		logf := func(f string, a ...any) {
			if len(log) < 50 {
				log = append(log, fmt.Sprintf(f, a...))
			}
		}
		send := func(t *rapid.T) {
			now = now.Add(time.Duration(rapid.IntRange(0, 5000).Draw(t, "gapUS")) * time.Microsecond)
			hdr := kit.GenHeader(t, "h", kit.HeaderShape{NoExtensions: true, NoPadding: true})
			size := kit.PayloadLen(1460).Draw(t, "size")
			h.I(size)
			if rapid.IntRange(0, 2).Draw(t, "twccStream") != 0 {
				hdr.SSRC = 800
				ext, _ := (rtp.TransportCCExtension{TransportSequence: twccNext}).Marshal()
				if err := hdr.SetExtension(twccExtID, ext); err != nil {
					t.Fatalf("harness: %v", err)
				}
				if err := ad.OnSent(now, &hdr, size, interceptor.Attributes{cc.TwccExtensionAttributesKey: uint8(twccExtID)}); err != nil {
					t.Fatalf("OnSent: %v", err)
				}
				hist.add(sentPkt{k: key{twcc: true, seq: twccNext}, size: hdr.MarshalSize() + size, departure: now})
				h.U(1, uint64(twccNext))
				twccNext++
				if rapid.IntRange(0, 30).Draw(t, "skipTwcc") == 0 {
					twccNext += uint16(rapid.IntRange(1, 5).Draw(t, "skip")) //nolint:gosec
				}

				return
			}
			ssrc := uint32(900 + rapid.IntRange(0, 1).Draw(t, "rtpStream")) //nolint:gosec
			hdr.SSRC = ssrc
			hdr.SequenceNumber = rtpNext[ssrc]
			if err := ad.OnSent(now, &hdr, size, interceptor.Attributes{}); err != nil {
				t.Fatalf("OnSent: %v", err)
			}
			hist.add(sentPkt{k: key{ssrc: ssrc, seq: hdr.SequenceNumber}, size: size, departure: now})
			h.U(2, uint64(ssrc), uint64(hdr.SequenceNumber))
			switch rapid.IntRange(0, 20).Draw(t, "rtpStep") {
			case 0: // retransmission of the same number later
			case 1:
				rtpNext[ssrc] += uint16(rapid.IntRange(2, 5).Draw(t, "gap")) //nolint:gosec
			default:
				rtpNext[ssrc]++
			}
		}
		twccFeedback := func(t *rapid.T) {
			back := rapid.OneOf(rapid.IntRange(-3, 40), rapid.IntRange(0, 300), rapid.IntRange(200, 400)).Draw(t, "back")
			base := twccNext - uint16(back) //nolint:gosec
			count := rapid.OneOf(rapid.IntRange(1, 20), rapid.IntRange(1, 60)).Draw(t, "count")
			spec := kit.TWCCSpec{Base: base, RefTime: rapid.Uint32Range(0, 1<<24-1).Draw(t, "ref"), FbCount: 1}
			lossPct := rapid.SampledFrom([]int{0, 10, 50, 100}).Draw(t, "lossPct")
			for i := 0; i < count; i++ {
				st := kit.TWCCStatus{Received: rapid.IntRange(1, 100).Draw(t, "rx") > lossPct}
				if st.Received {
					st.Delta250 = rapid.OneOf(rapid.Int64Range(0, 255), rapid.Int64Range(0, 20), rapid.Int64Range(-32768, 32767), rapid.Int64Range(256, 2000)).Draw(t, "delta")
				}
				spec.Statuses = append(spec.Statuses, st)
			}
			overshoot := 0
			if rapid.IntRange(0, 5).Draw(t, "overshoot") == 0 {
				overshoot = rapid.IntRange(1, 20).Draw(t, "overshootBy")
			}
			fb := kit.EncodeTWCC(t, spec, overshoot)
			h.U(3, uint64(base)).I(count)
			var acks []cc.Acknowledgment
			var err error
			if o := kit.Guard(0, func() { acks, err = ad.OnTransportCCFeedback(now, fb) }); !o.OK() {
				t.Fatalf("OnTransportCCFeedback: %s", o)
			}
			if err != nil {
				t.Fatalf("well-formed feedback (base %d, count %d, chunks %d) rejected: %v", base, count, len(fb.PacketChunks), err)
			}
			// ground truth per number
			type truth struct {
				received bool
				arrival  time.Time
			}
			want := map[uint16]truth{}
			at := time.Time{}.Add(time.Duration(spec.RefTime) * 64 * time.Millisecond)
			sawAbsent, absentThenPresent := false, false
			for i, st := range spec.Statuses {
				n := base + uint16(i) //nolint:gosec
				if st.Received {
					at = at.Add(time.Duration(st.Delta250) * 250 * time.Microsecond)
				}
				want[n] = truth{received: st.Received, arrival: at}
				if _, in := hist.items[key{twcc: true, seq: n}]; !in {
					sawAbsent = true
				} else if sawAbsent && st.Received {
					absentThenPresent = true
				}
			}
			seen := map[uint16]int{}
			for _, a := range acks {
				if isZeroAck(a) {
					if kit.Known("C09-placeholder-acks") {
						rec.KnownHit("C09-placeholder-acks")

						continue
					}
					t.Fatalf("feedback (base %d count %d) yields a zero-valued acknowledgement that names no sent packet", base, count)
				}
				p, in := hist.items[key{twcc: true, seq: a.SequenceNumber}]
				if a.SSRC != 0 || !in {
					t.Fatalf("acknowledgement %+v names no packet in the sent history", a)
				}
				if a.Size != p.size || !a.Departure.Equal(p.departure) {
					t.Fatalf("acknowledgement for transport number %d carries size %d departure %v, recorded %d %v", a.SequenceNumber, a.Size, a.Departure, p.size, p.departure)
				}
				w, inRange := want[a.SequenceNumber]
				if !inRange {
					if a.Arrival.IsZero() && kit.Known("C09-symbols-past-status-count") {
						rec.KnownHit("C09-symbols-past-status-count")
						classes["padded-symbols-reported"] = true

						continue
					}
					t.Fatalf("feedback declares [%d, %d) but transport number %d is acknowledged (arrival %v)", base, base+uint16(count), a.SequenceNumber, a.Arrival) //nolint:gosec
				}
				seen[a.SequenceNumber]++
				if w.received && w.arrival.IsZero() {
					continue // arrival exactly at the zero instant cannot be told from "not arrived" in this API
				}
				if w.received != !a.Arrival.IsZero() || (w.received && !a.Arrival.Equal(w.arrival)) {
					t.Fatalf("transport number %d: feedback (base %d, ref %d) encodes received=%v arrival %v, acknowledgement says arrival %v", a.SequenceNumber, base, spec.RefTime,
						w.received, w.arrival.Sub(time.Time{}), a.Arrival.Sub(time.Time{}))
				}
			}
			for n := range want {
				if _, in := hist.items[key{twcc: true, seq: n}]; in && seen[n] != 1 {
					t.Fatalf("transport number %d is in the history and inside [%d, %d) but acknowledged %d times", n, base, base+uint16(count), seen[n]) //nolint:gosec
				}
			}
			if absentThenPresent {
				nontrivial = true
			}
			logf("twcc fb base=%d count=%d chunks=%d acks=%d", base, count, len(fb.PacketChunks), len(acks))
		}
		ccfbFeedback := func(t *rapid.T) {
			rep := &rtcp.CCFeedbackReport{SenderSSRC: 1, ReportTimestamp: rapid.Uint32().Draw(t, "reportTS")}
			ref := ntpToTime(uint64(rep.ReportTimestamp) << 16)
			type truth struct {
				mb rtcp.CCFeedbackMetricBlock
			}
			want := map[key]truth{}
			nb := rapid.IntRange(1, 3).Draw(t, "blocks")
			usedSSRC := map[uint32]bool{}
			sawAbsent, absentThenPresent := false, false
			for b := 0; b < nb; b++ {
				ssrc := uint32(900 + rapid.IntRange(0, 2).Draw(t, "ssrc")) //nolint:gosec
				if usedSSRC[ssrc] {
					continue
				}
				usedSSRC[ssrc] = true
				begin := rtpNext[ssrc] - uint16(rapid.OneOf(rapid.IntRange(-3, 40), rapid.IntRange(0, 300)).Draw(t, "back")) //nolint:gosec
				blk := rtcp.CCFeedbackReportBlock{MediaSSRC: ssrc, BeginSequence: begin}
				cnt := rapid.IntRange(0, 40).Draw(t, "n")
				for i := 0; i < cnt; i++ {
					mb := rtcp.CCFeedbackMetricBlock{Received: rapid.IntRange(0, 3).Draw(t, "rx") != 0}
					if mb.Received {
						mb.ECN = rtcp.ECN(rapid.IntRange(0, 3).Draw(t, "ecn")) //nolint:gosec
						mb.ArrivalTimeOffset = rapid.OneOf(rapid.Uint16Range(0, 0x1FFD), rapid.Uint16Range(0, 100), rapid.SampledFrom([]uint16{0x1FFE, 0x1FFF})).Draw(t, "ato")
					}
					blk.MetricBlocks = append(blk.MetricBlocks, mb)
					k := key{ssrc: ssrc, seq: begin + uint16(i)} //nolint:gosec
					want[k] = truth{mb: mb}
					if _, in := hist.items[k]; !in {
						sawAbsent = true
					} else if sawAbsent && mb.Received {
						absentThenPresent = true
					}
				}
				rep.ReportBlocks = append(rep.ReportBlocks, blk)
				h.U(4, uint64(ssrc), uint64(begin)).I(cnt)
			}
			var acks []cc.Acknowledgment
			if o := kit.Guard(0, func() { acks = ad.OnRFC8888Feedback(now, rep) }); !o.OK() {
				t.Fatalf("OnRFC8888Feedback: %s", o)
			}
			seen := map[key]int{}
			for _, a := range acks {
				k := key{ssrc: a.SSRC, seq: a.SequenceNumber}
				p, in := hist.items[k]
				if !in {
					t.Fatalf("RFC 8888 acknowledgement %+v names no packet in the sent history", a)
				}
				if a.Size != p.size || !a.Departure.Equal(p.departure) {
					t.Fatalf("acknowledgement for %d/%d carries size %d departure %v, recorded %d %v", a.SSRC, a.SequenceNumber, a.Size, a.Departure, p.size, p.departure)
				}
				w, inRange := want[k]
				if !inRange {
					t.Fatalf("report does not cover %d/%d but it is acknowledged", a.SSRC, a.SequenceNumber)
				}
				seen[k]++
				if w.mb.Received == a.Arrival.IsZero() {
					t.Fatalf("%d/%d: report says received=%v, acknowledgement arrival %v", a.SSRC, a.SequenceNumber, w.mb.Received, a.Arrival)
				}
				if w.mb.Received {
					if a.ECN != w.mb.ECN {
						t.Fatalf("%d/%d: report ECN %d, acknowledgement ECN %d", a.SSRC, a.SequenceNumber, w.mb.ECN, a.ECN)
					}
					if w.mb.ArrivalTimeOffset < 0x1FFE {
						exp := ref.Add(-time.Duration(w.mb.ArrivalTimeOffset) * time.Second / 1024)
						if d := a.Arrival.Sub(exp); d > time.Microsecond || d < -time.Microsecond {
							t.Fatalf("%d/%d: report time - %d/1024 s = %v, acknowledgement arrival %v", a.SSRC, a.SequenceNumber, w.mb.ArrivalTimeOffset, exp, a.Arrival)
						}
					}
				} else if a.ECN != 0 {
					t.Fatalf("%d/%d: lost packet carries ECN %d", a.SSRC, a.SequenceNumber, a.ECN)
				}
			}
			for k := range want {
				if _, in := hist.items[k]; in && seen[k] != 1 {
					t.Fatalf("%d/%d is in the history and covered by the report but acknowledged %d times", k.ssrc, k.seq, seen[k])
				}
			}
			if absentThenPresent {
				nontrivial = true
			}
			logf("ccfb blocks=%d acks=%d", len(rep.ReportBlocks), len(acks))
		}
		actions := map[string]func(*rapid.T){"send": send, "twccFeedback": twccFeedback, "ccfbFeedback": ccfbFeedback,
			"sendBurst": func(t *rapid.T) {
				for i, n := 0, rapid.IntRange(5, 120).Draw(t, "burst"); i < n; i++ {
					send(t)
				}
			}}
		for _, a := range []string{"send2", "send3", "send4"} {
			actions[a] = send
		}
		t.Repeat(actions)
		var cl []string
		for c := range classes {
			cl = append(cl, c)
		}
		sort.Strings(cl)
		rec.Case(h.Sum(), nontrivial, cl, func() any { return map[string]any{"packets_in_history": len(hist.order), "events": log} })
	})
}

// ntpToTime converts a 64-bit NTP timestamp (independent of internal/ntp).
func ntpToTime(v uint64) time.Time {
	sec := int64(v >> 32)
	frac := int64(v&0xffffffff) * 1_000_000_000 >> 32

	return time.Unix(sec-2208988800, frac).UTC()
}
