package c06

import (
	"testing"
	"time"

	"github.com/pion/interceptor"
	"github.com/pion/interceptor/pkg/report"
	"github.com/pion/interceptor/verifharness/kit"
	"github.com/pion/rtcp"
	"github.com/pion/rtp"
	"pgregory.net/rapid"
)

// TestCumulativeLostSaturates drives one stream through thousands of report intervals with large in-order jumps (each inside the
// 8192-packet history) until the sum of the interval losses has passed 2^24-1 by a generated margin: every report carries
// min(sum, 2^24-1), the fraction of its own interval and the extended highest number with the right cycle count.
func TestCumulativeLostSaturates(t *testing.T) {
	rec := kit.NewRecorder("C06", "cumulative-lost-saturation",
		"one stream, jumps of 1..8000 (mostly > 5000) between report ticks until the sum of interval losses exceeds 2^24-1 by 0..200000; every report checked for "+
			"cumulative lost = min(sum, 2^24-1), fraction lost = floor(256 x lost / expected) and the extended highest sequence number; non-trivial = the sum crossed 2^24-1; distinct by jumps")
	rapid.Check(t, func(t *rapid.T) {
		gate := kit.NewGateClock(epoch)
		f, err := report.NewReceiverInterceptor(report.ReceiverNow(gate.Now), report.ReceiverInterval(200*time.Microsecond))
		if err != nil {
			t.Fatalf("factory: %v", err)
		}
		ic, err := f.NewInterceptor("")
		if err != nil {
			t.Fatalf("NewInterceptor: %v", err)
		}
		sink := &kit.RTCPSink{}
		ic.BindRTCPWriter(sink)
		defer func() {
			gate.Open()
			kit.BoundedClose(ic.Close)
		}()
		src := &kit.ByteSource{}
		r := ic.BindRemoteStream(&interceptor.StreamInfo{SSRC: 77, ClockRate: 90000}, src)
		seq := kit.U16Boundary().Draw(t, "startSeq")
		ext := int64(seq)
		now := epoch
		read := func() {
			raw, _ := (&rtp.Packet{Header: rtp.Header{Version: 2, SSRC: 77, SequenceNumber: seq, Timestamp: 1}, Payload: []byte{1}}).Marshal()
			src.Push(raw)
			gate.Set(now)
			if _, _, err := r.Read(kit.DirtyBuffer(1500), interceptor.Attributes{}); err != nil {
				t.Fatalf("read: %v", err)
			}
		}
		read()
		beyond := int64(rapid.IntRange(0, 200000).Draw(t, "beyond"))
		jumpGen := rapid.OneOf(rapid.IntRange(5000, 8000), rapid.IntRange(7900, 8000), rapid.IntRange(1, 8000))
		var sum int64
		h := kit.NewH().U(uint64(seq))
		ticks := 0
		for sum < 1<<24-1+beyond {
			j := jumpGen.Draw(t, "jump")
			h.I(j)
			seq += uint16(j) //nolint:gosec
			ext += int64(j)
			now = now.Add(20 * time.Millisecond)
			read()
			lost := int64(j - 1)
			sum += lost
			from := sink.Len()
			now = now.Add(time.Millisecond)
			gate.Set(now)
			if err := gate.Tick(now); err != nil {
				t.Fatalf("tick: %v", err)
			}
			ticks++
			calls := sink.Calls()[from:]
			if len(calls) != 1 || len(calls[0].Pkts) != 1 {
				t.Fatalf("tick %d wrote %d RTCP batches", ticks, len(calls))
			}
			rr, ok := calls[0].Pkts[0].(*rtcp.ReceiverReport)
			if !ok || len(rr.Reports) != 1 {
				t.Fatalf("tick %d wrote %T", ticks, calls[0].Pkts[0])
			}
			rep := rr.Reports[0]
			want := min(sum, 1<<24-1)
			if int64(rep.TotalLost) != want {
				t.Fatalf("report %d: cumulative lost %d, want min(sum of interval losses %d, 2^24-1) = %d", ticks, rep.TotalLost, sum, want)
			}
			expected := int64(j)
			if ticks == 1 {
				expected++ // the first interval also contains the first packet
			}
			if wantF := uint8(256 * lost / expected); rep.FractionLost != wantF { //nolint:gosec
				t.Fatalf("report %d: fraction lost %d, want floor(256*%d/%d) = %d", ticks, rep.FractionLost, lost, expected, wantF)
			}
			if wantExt := uint32(ext - int64(uint16(ext)) + int64(seq)); rep.LastSequenceNumber != uint32(ext) || wantExt != uint32(ext) { //nolint:gosec
				t.Fatalf("report %d: extended highest sequence number %d (cycles %d), want %d (cycles %d)", ticks, rep.LastSequenceNumber, rep.LastSequenceNumber>>16, uint32(ext), ext>>16) //nolint:gosec
			}
		}
		rec.Case(h.Sum(), true, []string{"crossed-2^24-1"}, func() any {
			return map[string]any{"reports": ticks, "sum_of_interval_losses": sum, "final_extended_seq": ext}
		})
	})
}
