package c06

import (
	"fmt"
	"math"
	"sort"
	"testing"
	"time"

	"github.com/pion/interceptor"
	"github.com/pion/interceptor/pkg/report"
	"github.com/pion/interceptor/verifharness/kit"
	"github.com/pion/rtcp"
	"github.com/pion/rtp"
	"pgregory.net/rapid"
)

var epoch = time.Date(2024, 3, 1, 12, 0, 0, 0, time.UTC)

// model of one remote stream per RFC 3550 as the statement reads it
type streamModel struct {
	ssrc      uint32
	rate      float64
	started   bool
	first     int64 // extended number of the first packet
	ext       int64 // extended highest
	ext16     uint16
	prevExt   int64 // extended highest at the previous report (first-1 before any)
	received  map[int64]bool
	cumLost   int64
	jitter    float64
	lastTS    uint32
	lastAt    time.Time
	lsr       uint32
	srAt      time.Time
	haveSR    bool
	reports   int
	advance   int64 // forward advance since the previous tick
	intervalN int
}

func (m *streamModel) packet(seq uint16, ts uint32, at time.Time) string {
	if !m.started {
		m.started = true
		m.first, m.ext, m.ext16 = int64(seq), int64(seq), seq
		m.prevExt = m.first - 1
		m.received[m.ext] = true
		m.lastTS, m.lastAt = ts, at

		return "first"
	}
	cl := "in-order"
	diff := seq - m.ext16
	switch {
	case diff == 0:
		cl = "duplicate"
	case diff < 1<<15:
		if diff > 1 {
			cl = "gap"
		}
		if seq < m.ext16 {
			cl = "seq-wrap"
		}
		m.ext += int64(diff)
		m.ext16 = seq
		m.received[m.ext] = true
		m.advance += int64(diff)
	default:
		u := m.ext - int64(m.ext16-seq)
		if m.received[u] {
			cl = "duplicate"
		} else {
			cl = "late"
			if u <= m.prevExt {
				cl = "late-previous-interval"
			}
		}
		m.received[u] = true
	}
	// RFC 3550 A.8, wrap-safe on the 32-bit RTP timestamp
	d := at.Sub(m.lastAt).Seconds()*m.rate - float64(int32(ts-m.lastTS))
	if ts < m.lastTS && int32(ts-m.lastTS) > 0 {
		cl += "+ts-wrap"
	}
	m.jitter += (math.Abs(d) - m.jitter) / 16
	m.lastTS, m.lastAt = ts, at

	return cl
}

type expect struct {
	ext      uint32
	fraction uint8
	total    uint32
	jitter   float64
	lsr      uint32
	dlsr     float64
	lost     int64
	expected int64
}

func (m *streamModel) report(now time.Time) expect {
	expected := m.ext - m.prevExt
	lost := int64(0)
	for u := m.prevExt + 1; u <= m.ext; u++ {
		if !m.received[u] {
			lost++
		}
	}
	m.cumLost += lost
	if m.cumLost > 0xFFFFFF {
		m.cumLost = 0xFFFFFF
	}
	e := expect{ext: uint32(m.ext), total: uint32(m.cumLost), jitter: m.jitter, lost: lost, expected: expected} //nolint:gosec
	if expected > 0 {
		e.fraction = uint8(256 * lost / expected) //nolint:gosec
	}
	if m.haveSR {
		e.lsr = m.lsr
		e.dlsr = now.Sub(m.srAt).Seconds() * 65536
	}
	// forget what lies behind the new reference point
	for u := range m.received {
		if u <= m.ext-9000 {
			delete(m.received, u)
		}
	}
	m.prevExt = m.ext
	m.advance = 0
	m.reports++

	return e
}

type bound struct {
	info   *interceptor.StreamInfo
	src    *kit.ByteSource
	reader interceptor.RTPReader
	m      *streamModel
	cursor uint16
	ts     uint32
}

func TestReceiverReports(t *testing.T) {
	rec := kit.NewRecorder("C06", "receiver-reports-gate-clock",
		"reception histories (loss, duplicates, reordering < 8192, sequence wrap, first packets out of order, RTP timestamps crossing 2^32, clock rates 8k..90k, "+
			"arrival clock steps 0..minutes, matching and foreign sender reports) on 1-2 streams through report.ReceiverInterceptor with ReceiverNow = gate clock; "+
			"ticks placed at generated points; non-trivial = >= 2 reports and (loss, reordering across a report boundary, or a timestamp/sequence wrap); distinct by history")
	rapid.Check(t, func(t *rapid.T) {
		gate := kit.NewGateClock(epoch)
		f, err := report.NewReceiverInterceptor(report.ReceiverNow(gate.Now), report.ReceiverInterval(200*time.Microsecond))
		if err != nil {
			t.Fatalf("factory: %v", err)
		}
		ic, err := f.NewInterceptor("")
		if err != nil {
			t.Fatalf("NewInterceptor: %v", err)
		}
		sink := &kit.RTCPSink{}
		ic.BindRTCPWriter(sink)
		defer func() {
			gate.Open()
			kit.BoundedClose(ic.Close)
		}()
		rtcpSrc := &kit.ByteSource{}
		rtcpReader := ic.BindRTCPReader(rtcpSrc)
		ns := rapid.IntRange(1, 2).Draw(t, "streams")
		streams := make([]*bound, ns)
		for i := range streams {
			rate := rapid.SampledFrom([]uint32{8000, 16000, 48000, 90000}).Draw(t, "rate")
			info := &interceptor.StreamInfo{SSRC: uint32(700 + i), ClockRate: rate} //nolint:gosec
			b := &bound{info: info, src: &kit.ByteSource{}, m: &streamModel{ssrc: info.SSRC, rate: float64(rate), received: map[int64]bool{}}}
			b.reader = ic.BindRemoteStream(info, b.src)
			b.cursor = kit.U16Boundary().Draw(t, "startSeq")
			b.ts = kit.U32Boundary().Draw(t, "startTS")
			streams[i] = b
		}
		now := epoch
		h := kit.NewH()
		classes := map[string]bool{}
		var log []string
		logf := func(f string, a ...any) {
			if len(log) < 60 {
				log = append(log, fmt.Sprintf(f, a...))
			}
		}
		dt := rapid.OneOf(
			rapid.SampledFrom([]time.Duration{0, time.Microsecond, time.Millisecond, 20 * time.Millisecond, 33 * time.Millisecond, time.Second, 3 * time.Minute}),
			rapid.SampledFrom([]time.Duration{20 * time.Millisecond, 20 * time.Millisecond, 5 * time.Millisecond}),
			rapid.Custom(func(t *rapid.T) time.Duration { return time.Duration(rapid.Int64Range(0, 50_000_000).Draw(t, "ns")) }),
		)
		ticks, lossSeen, boundaryReorder := 0, false, false
		doTick := func() {
			now = now.Add(dt.Draw(t, "tickdt"))
			gate.Set(now)
			from := sink.Len()
			if err := gate.Tick(now); err != nil {
				t.Fatalf("tick: %v", err)
			}
			ticks++
			got := map[uint32]*rtcp.ReceptionReport{}
			for _, c := range sink.Calls()[from:] {
				for _, p := range c.Pkts {
					rr, ok := p.(*rtcp.ReceiverReport)
					if !ok || len(rr.Reports) != 1 {
						t.Fatalf("tick wrote %T with unexpected shape", p)
					}
					if got[rr.Reports[0].SSRC] != nil {
						t.Fatalf("two reports for ssrc %d in one tick", rr.Reports[0].SSRC)
					}
					r := rr.Reports[0]
					got[r.SSRC] = &r
				}
			}
			h.U(0xFFFF, uint64(now.Sub(epoch)))
			for _, b := range streams {
				r := got[b.info.SSRC]
				if r == nil {
					t.Fatalf("tick %d: no receiver report for bound ssrc %d", ticks, b.info.SSRC)
				}
				if !b.m.started {
					continue // nothing received yet: the statement does not define this report
				}
				e := b.m.report(now)
				logf("tick at +%v ssrc=%d expected=%d lost=%d", now.Sub(epoch), b.info.SSRC, e.expected, e.lost)
				if e.lost > 0 {
					lossSeen = true
				}
				where := fmt.Sprintf("tick %d (report %d of ssrc %d, interval expected %d lost %d)", ticks, b.m.reports, b.info.SSRC, e.expected, e.lost)
				if r.LastSequenceNumber != e.ext {
					t.Fatalf("%s: extended highest sequence number %d (cycles %d, seq %d), want %d (cycles %d, seq %d)", where,
						r.LastSequenceNumber, r.LastSequenceNumber>>16, r.LastSequenceNumber&0xffff, e.ext, e.ext>>16, e.ext&0xffff)
				}
				if r.FractionLost != e.fraction {
					t.Fatalf("%s: fraction lost %d, want floor(256*%d/%d) = %d", where, r.FractionLost, e.lost, e.expected, e.fraction)
				}
				if r.TotalLost != e.total {
					t.Fatalf("%s: cumulative lost %d, want %d", where, r.TotalLost, e.total)
				}
				if math.Abs(float64(r.Jitter)-e.jitter) > 2+1e-9*e.jitter {
					t.Fatalf("%s: interarrival jitter %d, RFC 3550 A.8 recurrence on wrap-safe timestamp differences gives %.3f", where, r.Jitter, e.jitter)
				}
				if r.LastSenderReport != e.lsr {
					t.Fatalf("%s: LSR %#x, want %#x", where, r.LastSenderReport, e.lsr)
				}
				if math.Abs(float64(r.Delay)-math.Floor(e.dlsr)) > 1 {
					t.Fatalf("%s: DLSR %d, want floor(65536 * %.6f s) = %.0f", where, r.Delay, e.dlsr/65536, math.Floor(e.dlsr))
				}
			}
		}
		n := rapid.IntRange(1, 500).Draw(t, "steps")
		maxTicks := 10
		for i := 0; i < n; i++ {
			kind := rapid.IntRange(0, 19).Draw(t, "kind")
			if kind == 0 && ticks < maxTicks {
				doTick()

				continue
			}
			if kind == 1 { // sender report for a bound or a foreign SSRC
				now = now.Add(dt.Draw(t, "dt"))
				gate.Set(now)
				// one compound with 1..3 sender reports (bound streams and a foreign SSRC in any order, mixed with other packet types):
				// each bound stream takes the last SR that names it
				var pkts []rtcp.Packet
				type srRec struct {
					k   int
					ntp uint64
				}
				var srs []srRec
				for i, n := 0, rapid.SampledFrom([]int{1, 1, 2, 3}).Draw(t, "srCount"); i < n; i++ {
					k := rapid.IntRange(0, ns).Draw(t, "srFor")
					ssrc := uint32(999)
					if k < ns {
						ssrc = streams[k].info.SSRC
					}
					ntpTime := rapid.Uint64().Draw(t, "ntp")
					if rapid.IntRange(0, 3).Draw(t, "otherFirst") == 0 {
						pkts = append(pkts, &rtcp.ReceiverReport{SSRC: 5}, &rtcp.PictureLossIndication{SenderSSRC: 5, MediaSSRC: ssrc})
					}
					pkts = append(pkts, &rtcp.SenderReport{SSRC: ssrc, NTPTime: ntpTime, RTPTime: 1, PacketCount: 2, OctetCount: 3})
					srs = append(srs, srRec{k, ntpTime})
					h.U(0xFFFE, uint64(ssrc), ntpTime)
				}
				raw, _ := rtcp.Marshal(pkts)
				rtcpSrc.Push(raw)
				if _, _, err := rtcpReader.Read(kit.DirtyBuffer(1500), interceptor.Attributes{}); err != nil {
					t.Fatalf("RTCP read: %v", err)
				}
				for _, sr := range srs {
					if sr.k < ns {
						streams[sr.k].m.lsr, streams[sr.k].m.srAt, streams[sr.k].m.haveSR = uint32(sr.ntp>>16), now, true //nolint:gosec
						classes["sender-report"] = true
					} else {
						classes["foreign-sender-report"] = true
					}
				}
				if len(srs) > 1 {
					classes["compound-with-several-sender-reports"] = true
				}

				continue
			}
			b := streams[rapid.IntRange(0, ns-1).Draw(t, "stream")]
			var seq uint16
			switch {
			case kind <= 11:
				b.cursor++
				seq = b.cursor
			case kind == 12:
				b.cursor += uint16(rapid.IntRange(2, 8).Draw(t, "gap")) //nolint:gosec
				seq = b.cursor
			case kind == 13:
				seq = b.cursor // duplicate
			case kind == 14:
				seq = b.cursor - uint16(rapid.IntRange(1, 30).Draw(t, "back")) //nolint:gosec
			case kind == 15:
				seq = b.cursor - uint16(rapid.IntRange(1, 8000).Draw(t, "farback")) //nolint:gosec
			case kind == 16:
				j := rapid.IntRange(9, 3000).Draw(t, "jump")
				if b.m.advance+int64(j) > 8000 {
					j = 1
				}
				b.cursor += uint16(j) //nolint:gosec
				seq = b.cursor
			default:
				b.cursor++
				seq = b.cursor
			}
			if b.m.started && seq-b.m.ext16 < 1<<15 && b.m.advance+int64(seq-b.m.ext16) > 8000 {
				// keep the span between two reports inside the 8192-packet history (the property's domain): the receiver of a
				// stream that has advanced this far reports before it takes more packets
				if b.m.advance >= 8000 {
					doTick()
					classes["forced-report-at-history-limit"] = true
				}
				seq = b.m.ext16 + 1
			}
			step := dt.Draw(t, "dt")
			now = now.Add(step)
			gate.Set(now)
			// RTP timestamp: follows the clock, with frames sharing a timestamp and occasional arbitrary jumps
			switch rapid.IntRange(0, 9).Draw(t, "tsmode") {
			case 0: // same frame
			case 1:
				b.ts += rapid.Uint32().Draw(t, "tsjump")
			default:
				b.ts += uint32(step.Seconds() * b.m.rate) //nolint:gosec
			}
			raw, _ := (&rtp.Packet{Header: rtp.Header{Version: 2, SSRC: b.info.SSRC, SequenceNumber: seq, Timestamp: b.ts}, Payload: []byte{1}}).Marshal()
			b.src.Push(raw)
			if _, _, err := b.reader.Read(kit.DirtyBuffer(1500), interceptor.Attributes{}); err != nil {
				t.Fatalf("read: %v", err)
			}
			h.U(uint64(b.info.SSRC), uint64(seq), uint64(b.ts), uint64(step))
			cl := b.m.packet(seq, b.ts, now)
			classes[cl] = true
			if cl == "late" && b.m.reports > 0 {
				boundaryReorder = true
			}
			if cl == "late-previous-interval" {
				boundaryReorder = true
			}
			b.cursor = b.m.ext16
			logf("ssrc=%d seq=%d ts=%d +%v (%s)", b.info.SSRC, seq, b.ts, step, cl)
		}
		doTick()
		var cl []string
		wrap := false
		for c := range classes {
			cl = append(cl, c)
			if c == "seq-wrap" || len(c) > 8 && c[len(c)-8:] == "+ts-wrap" {
				wrap = true
			}
		}
		sort.Strings(cl)
		rec.Case(h.Sum(), ticks >= 2 && (lossSeen || boundaryReorder || wrap), cl, func() any {
			return map[string]any{"streams": ns, "ticks": ticks, "events": log}
		})
	})
}
