package c06

import (
	"testing"
	"time"

	"github.com/pion/interceptor"
	"github.com/pion/interceptor/pkg/report"
	"github.com/pion/interceptor/verifharness/kit"
	"github.com/pion/rtcp"
	"github.com/pion/rtp"
)

// TestRegressJitterAcrossTimestampWrap: an evenly paced stream whose RTP timestamp crosses 2^32 has (near) zero jitter.
func TestRegressJitterAcrossTimestampWrap(t *testing.T) {
	gate := kit.NewGateClock(epoch)
	f, _ := report.NewReceiverInterceptor(report.ReceiverNow(gate.Now), report.ReceiverInterval(200*time.Microsecond))
	ic, _ := f.NewInterceptor("")
	sink := &kit.RTCPSink{}
	ic.BindRTCPWriter(sink)
	defer func() {
		gate.Open()
		kit.BoundedClose(ic.Close)
	}()
	src := &kit.ByteSource{}
	r := ic.BindRemoteStream(&interceptor.StreamInfo{SSRC: 1, ClockRate: 90000}, src)
	now := epoch
	ts := uint32(1<<32 - 5*1800)
	for i := 0; i < 10; i++ {
		raw, _ := (&rtp.Packet{Header: rtp.Header{Version: 2, SSRC: 1, SequenceNumber: uint16(i), Timestamp: ts}, Payload: []byte{1}}).Marshal() //nolint:gosec
		src.Push(raw)
		gate.Set(now)
		if _, _, err := r.Read(kit.DirtyBuffer(1500), interceptor.Attributes{}); err != nil {
			t.Fatal(err)
		}
		now = now.Add(20 * time.Millisecond)
		ts += 1800
	}
	if err := gate.Tick(now); err != nil {
		t.Fatal(err)
	}
	rr := sink.Calls()[0].Pkts[0].(*rtcp.ReceiverReport) //nolint:forcetypeassert
	if rr.Reports[0].Jitter > 2 {
		kit.WriteReplay("TestRegressJitterAcrossTimestampWrap", []byte(`{"rate":90000,"packets":10,"spacing_ms":20,"first_ts":4294958296}`))
		t.Fatalf("evenly paced stream crossing the 2^32 timestamp wrap reports jitter %d", rr.Reports[0].Jitter)
	}
}
