module github.com/pion/interceptor/verifharness

go 1.24.0

require (
	github.com/pion/interceptor v0.0.0
	github.com/pion/logging v0.2.4
	github.com/pion/rtcp v1.2.17
	github.com/pion/rtp v1.10.5
	pgregory.net/rapid v1.3.0
)

require (
	github.com/pion/randutil v0.1.0 // indirect
	golang.org/x/time v0.14.0 // indirect
)

replace github.com/pion/interceptor => /repo
